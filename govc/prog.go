package main

import (
	"fmt"
	"go/constant"
	"go/token"
	"go/types"
	"os"
	"path/filepath"
	"sort"
	"strings"

	"golang.org/x/tools/go/packages"
	"golang.org/x/tools/go/ssa"
	"golang.org/x/tools/go/ssa/ssautil"
)

var theProg *Prog

const modulePath = "github.com/jub0bs/cors"

type Prog struct {
	Pkgs   []*packages.Package
	SSA    *ssa.Program
	Fset   *token.FileSet
	Funcs  map[string]*ssa.Function // qualified name -> function (module functions only)
	FnName map[*ssa.Function]string
	Specs  *Specs
	Repo   string

	// SMT declarations shared by all queries
	structSorts map[string]Sort   // types.Named string -> sort
	structDecl  []string          // datatype declarations in dependency order
	structNames [][]string        // per declaration: sort, constructor and accessor names
	structInfo  map[Sort]*StructI // sort -> field info
	typeIDs     map[string]int    // dynamic type ids for interfaces
	typeIDName  map[int]string
	lits        map[string]string // string literal -> symbol
	litOrder    []string
	readsCache  map[string]map[string]Sort
	structByPtr map[*types.Struct]Sort
}

type StructI struct {
	Sort   Sort
	Named  string
	Ctor   string
	Fields []FieldI
}
type FieldI struct {
	Name string
	Acc  string
	Sort Sort
	Ty   types.Type
}

func LoadProg(repo string, specDir string) (*Prog, error) {
	cfg := &packages.Config{Mode: packages.LoadAllSyntax, Dir: repo, BuildFlags: []string{"-tags=verif"},
		Env: append(os.Environ(), "GOFLAGS=-mod=mod", "GOPROXY=off", "GOSUMDB=off", "GOTOOLCHAIN=local")}
	pkgs, err := packages.Load(cfg, "./...")
	if err != nil {
		return nil, err
	}
	nerr := 0
	packages.Visit(pkgs, nil, func(p *packages.Package) {
		for _, e := range p.Errors {
			fmt.Fprintf(os.Stderr, "load error: %v\n", e)
			nerr++
		}
	})
	if nerr > 0 {
		return nil, fmt.Errorf("%d load errors", nerr)
	}
	prog, _ := ssautil.AllPackages(pkgs, ssa.GlobalDebug|ssa.InstantiateGenerics)
	prog.Build()
	P := &Prog{Pkgs: pkgs, SSA: prog, Fset: prog.Fset, Funcs: map[string]*ssa.Function{}, FnName: map[*ssa.Function]string{},
		Repo: repo, structSorts: map[string]Sort{}, structInfo: map[Sort]*StructI{}, typeIDs: map[string]int{}, typeIDName: map[int]string{},
		lits: map[string]string{}, structByPtr: map[*types.Struct]Sort{}}
	for f := range ssautil.AllFunctions(prog) {
		n := qualName(f)
		if n == "" {
			continue
		}
		if old, dup := P.Funcs[n]; dup && old != f {
			// generic instantiations etc.: keep the one with a body
			if len(old.Blocks) > 0 {
				continue
			}
		}
		P.Funcs[n] = f
		P.FnName[f] = n
	}
	// register struct sorts of module types in a deterministic order
	{
		var tns []*types.TypeName
		for _, p := range pkgs {
			if !strings.HasPrefix(p.PkgPath, modulePath) {
				continue
			}
			sc := p.Types.Scope()
			for _, n := range sc.Names() {
				if tn, ok := sc.Lookup(n).(*types.TypeName); ok {
					if _, ok := tn.Type().Underlying().(*types.Struct); ok {
						tns = append(tns, tn)
					}
				}
			}
		}
		sort.Slice(tns, func(i, j int) bool { return typeKey(tns[i].Type()) < typeKey(tns[j].Type()) })
		for _, tn := range tns {
			P.structSort(tn.Type())
		}
	}
	// contract files
	var files []string
	for _, p := range pkgs {
		if !strings.HasPrefix(p.PkgPath, modulePath) {
			continue
		}
		for _, gf := range p.GoFiles {
			if strings.HasSuffix(gf, "contracts_verif.go") {
				files = append(files, gf)
			}
		}
	}
	sort.Strings(files)
	sfiles, _ := filepath.Glob(filepath.Join(specDir, "*.spec"))
	sort.Strings(sfiles)
	sp, err := LoadSpecs(append(sfiles, files...))
	if err != nil {
		return nil, err
	}
	P.Specs = sp
	theProg = P
	return P, nil
}

// qualName gives "pkg.Func", "pkg.Recv.Method", "pkg.Recv.Method$1" for
// module functions and "path/pkg.Func" style short names for externals.
func qualName(f *ssa.Function) string {
	if f.Synthetic != "" && !strings.Contains(f.Synthetic, "instance of") && !strings.Contains(f.Synthetic, "package initializer") {
		// wrappers, bound methods, thunks
		if f.Parent() == nil {
			return ""
		}
	}
	if p := f.Parent(); p != nil {
		pn := qualName(p)
		if pn == "" {
			return ""
		}
		// f.Name() is like "Wrap$1"
		nm := f.Name()
		if i := strings.LastIndex(nm, "$"); i >= 0 {
			return pn + nm[i:]
		}
		return pn + "$" + nm
	}
	var pkg *types.Package
	if f.Pkg != nil {
		pkg = f.Pkg.Pkg
	} else if o := f.Origin(); o != nil && o.Pkg != nil {
		pkg = o.Pkg.Pkg
	} else if f.Object() != nil {
		pkg = f.Object().Pkg()
	}
	if pkg == nil {
		return ""
	}
	pname := pkg.Name()
	name := f.Name()
	if o := f.Origin(); o != nil {
		name = o.Name()
	}
	if recv := f.Signature.Recv(); recv != nil {
		t := recv.Type()
		if pt, ok := t.(*types.Pointer); ok {
			t = pt.Elem()
		}
		if n, ok := t.(*types.Named); ok {
			return pname + "." + n.Obj().Name() + "." + name
		}
		return ""
	}
	return pname + "." + name
}

func (P *Prog) inModule(f *ssa.Function) bool {
	var pkg *types.Package
	if f.Pkg != nil {
		pkg = f.Pkg.Pkg
	} else if p := f.Parent(); p != nil {
		return P.inModule(p)
	} else if o := f.Origin(); o != nil && o.Pkg != nil {
		pkg = o.Pkg.Pkg
	}
	return pkg != nil && strings.HasPrefix(pkg.Path(), modulePath)
}

// ---------- sorts ----------

func (P *Prog) sortOf(t types.Type) Sort {
	switch u := t.Underlying().(type) {
	case *types.Basic:
		switch {
		case u.Info()&types.IsBoolean != 0:
			return SBool
		case u.Info()&types.IsInteger != 0:
			return SInt
		case u.Info()&types.IsString != 0:
			return SStr
		case u.Kind() == types.UntypedNil || u.Kind() == types.UnsafePointer:
			return SInt
		}
		return SInt
	case *types.Slice:
		return SSlice
	case *types.Pointer, *types.Map, *types.Signature, *types.Chan:
		return SInt
	case *types.Interface:
		return SIface
	case *types.Struct:
		return P.structSort(t)
	case *types.Array:
		return SInt // arrays are only handled behind pointers (backing store id)
	case *types.Tuple:
		return "Tuple"
	}
	return SInt
}

func typeKey(t types.Type) string {
	if n, ok := t.(*types.Named); ok {
		return n.Obj().Pkg().Name() + "_" + n.Obj().Name()
	}
	if a, ok := t.(*types.Alias); ok {
		return typeKey(types.Unalias(a))
	}
	s := types.TypeString(t, func(p *types.Package) string { return p.Name() })
	r := strings.NewReplacer(" ", "_", "{", "_", "}", "_", ";", "_", "*", "p", "[", "_", "]", "_", ".", "_", "(", "_", ")", "_", ",", "_")
	return "anon_" + r.Replace(s)
}

func (P *Prog) structSort(t types.Type) Sort {
	st := t.Underlying().(*types.Struct)
	if s, ok := P.structByPtr[st]; ok {
		return s
	}
	key := typeKey(t)
	if _, ok := P.structSorts[key]; ok {
		key = fmt.Sprintf("%s_%d", key, len(P.structSorts))
	}
	s := Sort("T_" + key)
	P.structSorts[key] = s
	P.structByPtr[st] = s
	info := &StructI{Sort: s, Named: key, Ctor: "mk_" + key}
	for i := 0; i < st.NumFields(); i++ {
		f := st.Field(i)
		fs := P.sortOf(f.Type())
		if _, isArr := f.Type().Underlying().(*types.Array); isArr {
			fs = SInt
		}
		info.Fields = append(info.Fields, FieldI{Name: f.Name(), Acc: fmt.Sprintf("f_%s_%d_%s", key, i, cleanName(f.Name())), Sort: fs, Ty: f.Type()})
	}
	P.structInfo[s] = info
	var sb strings.Builder
	fmt.Fprintf(&sb, "(declare-datatypes ((%s 0)) (((%s", s, info.Ctor)
	for _, f := range info.Fields {
		fmt.Fprintf(&sb, " (%s %s)", f.Acc, f.Sort)
	}
	sb.WriteString("))))")
	P.structDecl = append(P.structDecl, sb.String())
	nms := []string{string(s), info.Ctor}
	for _, f := range info.Fields {
		nms = append(nms, f.Acc)
	}
	P.structNames = append(P.structNames, nms)
	return s
}

func cleanName(s string) string {
	if s == "_" {
		return "blank"
	}
	return s
}

func (P *Prog) structOf(t types.Type) *StructI {
	if pt, ok := t.Underlying().(*types.Pointer); ok {
		t = pt.Elem()
	}
	if _, ok := t.Underlying().(*types.Struct); !ok {
		return nil
	}
	return P.structInfo[P.structSort(t)]
}

func (si *StructI) field(name string) (int, *FieldI) {
	for i := range si.Fields {
		if si.Fields[i].Name == name {
			return i, &si.Fields[i]
		}
	}
	return -1, nil
}

// mkStruct builds a constructor application.
func (si *StructI) mk(fields []Term) Term {
	return App(si.Ctor, si.Sort, fields...)
}

func (si *StructI) get(v Term, i int) Term {
	return projApp(si.Fields[i].Acc, si.Fields[i].Sort, si.Ctor, i, v)
}

func (si *StructI) set(v Term, i int, nv Term) Term {
	fs := make([]Term, len(si.Fields))
	for k := range si.Fields {
		if k == i {
			fs[k] = nv
		} else {
			fs[k] = si.get(v, k)
		}
	}
	return si.mk(fs)
}

// zeroOf returns the zero value term of a Go type.
func (P *Prog) zeroOf(t types.Type) Term {
	switch s := P.sortOf(t); s {
	case SInt:
		return Int(0)
	case SBool:
		return False
	case SStr:
		return P.strLit("")
	case SSlice:
		return NilSlice
	case SIface:
		return NilIface
	default:
		si := P.structInfo[s]
		if si == nil {
			return Int(0)
		}
		fs := make([]Term, len(si.Fields))
		for i, f := range si.Fields {
			if _, isArr := f.Ty.Underlying().(*types.Array); isArr {
				fs[i] = Int(0)
			} else {
				fs[i] = P.zeroOf(f.Ty)
			}
		}
		return si.mk(fs)
	}
}

// ---------- literals ----------

func (P *Prog) strLit(s string) Term {
	if n, ok := P.lits[s]; ok {
		return Term{n, SStr}
	}
	n := fmt.Sprintf("lit!%d", len(P.lits))
	P.lits[s] = n
	P.litOrder = append(P.litOrder, s)
	return Term{n, SStr}
}

func (P *Prog) litValue(t Term) (string, bool) {
	if t.Sort != SStr || !strings.HasPrefix(t.S, "lit!") {
		return "", false
	}
	for s, n := range P.lits {
		if n == t.S {
			return s, true
		}
	}
	return "", false
}

// closureKey lets function names share the identifier space of typeID.
type closureKey struct{ name string }

func (closureKey) Underlying() types.Type { return nil }
func (c closureKey) String() string       { return "closure of " + c.name }

func (P *Prog) typeID(t types.Type) int {
	var k string
	if c, ok := t.(closureKey); ok {
		k = c.String()
	} else {
		k = types.TypeString(t, nil)
	}
	if id, ok := P.typeIDs[k]; ok {
		return id
	}
	id := len(P.typeIDs) + 1
	P.typeIDs[k] = id
	P.typeIDName[id] = k
	return id
}

// constTerm converts a Go constant to a term of the given type.
func (P *Prog) constTerm(v constant.Value, t types.Type) (Term, error) {
	if v == nil {
		return P.zeroOf(t), nil
	}
	switch v.Kind() {
	case constant.Bool:
		return Bool(constant.BoolVal(v)), nil
	case constant.String:
		return P.strLit(constant.StringVal(v)), nil
	case constant.Int:
		s := v.ExactString()
		if strings.HasPrefix(s, "-") {
			return Term{"(- " + s[1:] + ")", SInt}, nil
		}
		return Term{s, SInt}, nil
	}
	return Term{}, fmt.Errorf("unsupported constant %v", v)
}

// lookupConst finds a package-level constant by (optional pkg, name).
func (P *Prog) lookupConst(fromPkg *types.Package, pkgName, name string) (constant.Value, types.Type, bool) {
	var scope *types.Scope
	if pkgName == "" {
		if fromPkg == nil {
			return nil, nil, false
		}
		scope = fromPkg.Scope()
	} else {
		for _, p := range P.allTypesPkgs() {
			if p.Name() == pkgName {
				scope = p.Scope()
				break
			}
		}
	}
	if scope == nil {
		return nil, nil, false
	}
	if c, ok := scope.Lookup(name).(*types.Const); ok {
		return c.Val(), c.Type(), true
	}
	return nil, nil, false
}

func (P *Prog) allTypesPkgs() []*types.Package {
	var out []*types.Package
	for _, p := range P.SSA.AllPackages() {
		if strings.HasPrefix(p.Pkg.Path(), modulePath) || p.Pkg.Path() == "net/http" {
			out = append(out, p.Pkg)
		}
	}
	sort.Slice(out, func(i, j int) bool { return out[i].Path() < out[j].Path() })
	return out
}

func (P *Prog) findPkg(name string) *ssa.Package {
	for _, p := range P.SSA.AllPackages() {
		if p.Pkg.Name() == name && strings.HasPrefix(p.Pkg.Path(), modulePath) {
			return p
		}
	}
	for _, p := range P.SSA.AllPackages() {
		if p.Pkg.Name() == name {
			return p
		}
	}
	return nil
}

func (P *Prog) pos(p token.Pos) string {
	if !p.IsValid() {
		return "-"
	}
	ps := P.Fset.Position(p)
	rel, err := filepath.Rel(P.Repo, ps.Filename)
	if err != nil {
		rel = ps.Filename
	}
	return fmt.Sprintf("%s:%d", rel, ps.Line)
}
