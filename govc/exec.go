package main

// Symbolic executor over go/ssa: forward execution of every path segment of a
// function, loops cut at their headers by the contract's invariants, calls
// replaced by callee contracts. Emits one VC per proof goal.

import (
	"fmt"
	"go/ast"
	"go/token"
	"go/types"
	"os"
	"sort"
	"strings"

	"golang.org/x/tools/go/ssa"
)

type Loc struct {
	Kind string // field | elem | cell
	Heap string
	Addr Term
	Idx  Term
	Sort Sort
	Ty   types.Type
}

type Val struct {
	T     Term
	Loc   *Loc  // pointer to a scalar cell
	Tup   []Val // tuple
	Ty    types.Type
	Addr  *Term  // address of the struct this value was loaded from (spec lvalues)
	Glob  string // name of the global this pointer designates
	Ref   *Val   // name of an address-taken local: the pointer to load through, lazily
	RefTy types.Type
}

type VC struct {
	Name    string
	Fn      string
	Kind    string // safety | requires | ensures | invariant | decreases | lemma | allocs | frame | unreachable
	Prop    string // property tag of the clause ("" = untagged)
	Pos     string
	Assumes []Term
	Goal    Term
	Trace   string
	Inputs  []NamedVal
	Src     string
	uses    []string // lemma names to assume
}

type NamedVal struct {
	Name string
	V    Val
}

type Event struct {
	Kind string
	Args []Val
}

type State struct {
	vals     map[ssa.Value]Val
	heaps    map[string]Term
	pc       []Term
	names    map[string]Val
	open     map[*ssa.BasicBlock]bool
	varnt    map[*ssa.BasicBlock][]Term
	lallocs  map[*ssa.BasicBlock]int
	prev     *ssa.BasicBlock
	allocs   int
	trace    []string
	events   []Event
	entry    *Snapshot
	frames   []*frame
	dec      []Term // branch decisions taken on this path (used as merge guards)
	next     Term   // allocation frontier: every address existing in this state is below it
	pcSet    map[string]bool
	hinted   map[string]bool
	ensStart int             // length of pc when postcondition checking began (0 = not yet)
	atServe  map[string]Term // heaps right before the first ServeHTTP event
}

// frame: an inlined (transparent) callee being executed.
type frame struct {
	call    *ssa.Call
	names   map[string]Val
	fn      *ssa.Function
	collect *[]*State
}

type Snapshot struct {
	heaps map[string]Term
	names map[string]Val
}

func (s *State) clone() *State {
	n := *s
	n.vals = make(map[ssa.Value]Val, len(s.vals)+8)
	for k, v := range s.vals {
		n.vals[k] = v
	}
	n.heaps = make(map[string]Term, len(s.heaps))
	for k, v := range s.heaps {
		n.heaps[k] = v
	}
	n.names = make(map[string]Val, len(s.names))
	for k, v := range s.names {
		n.names[k] = v
	}
	n.open = make(map[*ssa.BasicBlock]bool, len(s.open))
	for k, v := range s.open {
		n.open[k] = v
	}
	n.varnt = make(map[*ssa.BasicBlock][]Term, len(s.varnt))
	for k, v := range s.varnt {
		n.varnt[k] = v
	}
	n.lallocs = make(map[*ssa.BasicBlock]int, len(s.lallocs))
	for k, v := range s.lallocs {
		n.lallocs[k] = v
	}
	n.pc = append([]Term(nil), s.pc...)
	n.pcSet = nil
	if s.hinted != nil {
		n.hinted = map[string]bool{}
		for k, v := range s.hinted {
			n.hinted[k] = v
		}
	}
	n.trace = append([]string(nil), s.trace...)
	n.events = append([]Event(nil), s.events...)
	n.frames = append([]*frame(nil), s.frames...)
	n.dec = append([]Term(nil), s.dec...)
	return &n
}

func (s *State) knows(t Term) bool {
	if t.S == "true" {
		return true
	}
	if s.pcSet == nil {
		s.pcSet = map[string]bool{}
		for _, p := range s.pc {
			s.pcSet[p.S] = true
		}
	}
	return s.pcSet[t.S]
}

// knowsNeq: the path condition contains the disequality a != b.
func (s *State) knowsNeq(a, b string) bool {
	return s.knows(Term{"(not (= " + a + " " + b + "))", SBool}) || s.knows(Term{"(not (= " + b + " " + a + "))", SBool})
}

func (s *State) assume(t Term) {
	if t.S == "true" || t.S == "" {
		return
	}
	if s.pcSet == nil {
		s.pcSet = map[string]bool{}
		for _, p := range s.pc {
			s.pcSet[p.S] = true
		}
	}
	if s.pcSet[t.S] {
		return
	}
	s.pcSet[t.S] = true
	s.pc = append(s.pc, t)
}

type Exec struct {
	P             *Prog
	fn            *ssa.Function
	fname         string
	c             *Contract
	pkg           *types.Package
	nfresh        int
	vcs           []*VC
	decls         map[string]string
	axioms        map[string][]string
	loops         []*ssa.BasicBlock
	loopOf        map[*ssa.BasicBlock]map[*ssa.BasicBlock]bool
	paths         int
	trusted       map[string]bool // trusted contracts / assumptions used
	params        []NamedVal
	maxAllocs     int
	relTag        string
	noSafety      bool
	instDone      map[string]bool
	recDepth      map[string]int
	noMergeTop    bool
	forProp       string // the property whose check this execution serves ("" = all clauses are obligations)
	covers        bool   // generate vacuity covers (thorough tier)
	coverProp     string // ... for the clauses of this property only
	coverVCs      []*VC
	renames       map[string]string // declared local that no longer exists -> current local it is read as
	renamePerm    int               // which pairing of renamed locals to try (0 = source order)
	renameChoices int               // number of pairings there are
	noMergeAll    bool              // keep every path through inlined helpers apart (many small conjunctive VCs)
	onlyProp      string            // generate only the obligations tagged with this property
	rename        map[string]string // parameter renaming for the second copy of a self-composed run
	collect       *[]*State
	instDepth     int // how deep contracts of applications inside instantiated contracts are unfolded
	recDone       map[string]bool
	recPending    map[string]bool
	recName       map[string]string
	lemmaText     map[string]string
	loopsDone     map[*ssa.Function]bool
	loopOrd       map[*ssa.BasicBlock]int
	loopCon       map[*ssa.BasicBlock]*Contract
	shared        map[string]string // body -> name of the shared definition
}

// share names a large term so that it is not textually duplicated by the
// constructions that mention it several times (terms are trees, not DAGs).
func (x *Exec) share(t Term) Term {
	if len(t.S) < 120 || t.Sort == "" || t.Sort == "Nil" || t.Sort == "Any" {
		return t
	}
	if strings.Contains(t.S, "q!") || strings.Contains(t.S, "a!") || strings.Contains(t.S, "k!s") || strings.Contains(t.S, "k!q") {
		return t // mentions a bound variable: cannot be lifted to a top-level definition
	}
	if x.shared == nil {
		x.shared = map[string]string{}
	}
	if n, ok := x.shared[t.S]; ok {
		return Term{n, t.Sort}
	}
	x.nfresh++
	n := fmt.Sprintf("d!%d", x.nfresh)
	x.decls[n] = fmt.Sprintf("(declare-const %s %s)", n, t.Sort)
	x.axioms[n] = []string{fmt.Sprintf("(= %s %s)", n, t.S)}
	x.shared[t.S] = n
	return Term{n, t.Sort}
}

type unsupported struct{ msg string }

func (x *Exec) unsup(pos token.Pos, f string, a ...any) {
	panic(unsupported{fmt.Sprintf("%s: %s", x.P.pos(pos), fmt.Sprintf(f, a...))})
}

func NewExec(P *Prog, fn *ssa.Function, c *Contract) *Exec {
	x := &Exec{P: P, fn: fn, c: c, decls: map[string]string{}, axioms: map[string][]string{}, trusted: map[string]bool{},
		loopOf: map[*ssa.BasicBlock]map[*ssa.BasicBlock]bool{}}
	if fn != nil {
		x.fname = P.FnName[fn]
		if fn.Pkg != nil {
			x.pkg = fn.Pkg.Pkg
		} else if p := fn.Parent(); p != nil && p.Pkg != nil {
			x.pkg = p.Pkg.Pkg
		} else if o := fn.Origin(); o != nil && o.Pkg != nil {
			x.pkg = o.Pkg.Pkg
		}
	}
	return x
}

func (x *Exec) fresh(prefix string, sort Sort) Term {
	x.nfresh++
	n := fmt.Sprintf("%s!%d", prefix, x.nfresh)
	x.declare(n, sort)
	return Term{sym(n), sort}
}

func (x *Exec) declare(name string, sort Sort) {
	s := sym(name)
	if _, ok := x.decls[s]; !ok {
		x.decls[s] = fmt.Sprintf("(declare-const %s %s)", s, sort)
	}
}

func (x *Exec) declareFun(name string, args []Sort, res Sort) string {
	s := sym(name)
	if _, ok := x.decls[s]; !ok {
		as := make([]string, len(args))
		for i, a := range args {
			as[i] = string(a)
		}
		x.decls[s] = fmt.Sprintf("(declare-fun %s (%s) %s)", s, strings.Join(as, " "), res)
	}
	return s
}

// ---------- heaps ----------

func heapSort(name string, elem Sort) Sort {
	switch {
	case strings.HasPrefix(name, "E!"):
		return Sort(fmt.Sprintf("(Array Int (Array Int %s))", elem))
	case name == "MP!":
		return "(Array Int (Array Str Bool))"
	case name == "MV!":
		return "(Array Int (Array Str Slice))"
	}
	return Sort(fmt.Sprintf("(Array Int %s)", elem))
}

func (x *Exec) heap(st *State, name string, elem Sort) Term {
	if h, ok := st.heaps[name]; ok {
		return h
	}
	hs := heapSort(name, elem)
	n := "H0!" + name
	x.declare(n, hs)
	h := Term{sym(n), hs}
	x.oldHeapAxioms(sym(n), name, elem)
	st.heaps[name] = h
	if st.entry != nil {
		if _, ok := st.entry.heaps[name]; !ok {
			st.entry.heaps[name] = h
		}
	}
	return h
}

func distinctSyn(a, b string) bool {
	if a == b {
		return false
	}
	ka, kb := symClass(a), symClass(b)
	if ka == "" || kb == "" {
		return false
	}
	if ka == "int" && kb == "int" {
		return true
	}
	if ka == "lit" && kb == "lit" {
		return true
	}
	if ka == "alloc" && (kb == "alloc" || kb == "param" || kb == "int" || kb == "glob" || kb == "old") {
		return true
	}
	if kb == "alloc" && (ka == "param" || ka == "int" || ka == "glob" || ka == "old") {
		return true
	}
	return false
}

// entryPure reports whether a term is built only from parameters, entry-state
// heaps, globals, literals and pure functions of those: its value existed
// when the function was entered, so as an address it differs from every
// object allocated during the call.
func entryPure(s string) bool {
	tk := map[string]bool{}
	tokensOf(s, tk)
	for t := range tk {
		t = strings.Trim(t, "|")
		switch {
		case strings.HasPrefix(t, "p!"), strings.HasPrefix(t, "H0!"), strings.HasPrefix(t, "gval!"), strings.HasPrefix(t, "gaddr!"),
			strings.HasPrefix(t, "lit!"), strings.HasPrefix(t, "sub!"), strings.HasPrefix(t, "elem!"), strings.HasPrefix(t, "f_"),
			t == "whdr", t == "select", t == "sarr", t == "sloff", t == "sllen", t == "slcap", t == "iptr", t == "ityp", t == "+", t == "-":
		default:
			if _, ok := intLit(Term{t, SInt}); !ok {
				return false
			}
		}
	}
	return true
}

func symClass(s string) string {
	switch {
	case strings.HasPrefix(s, "alloc!"):
		return "alloc"
	case strings.HasPrefix(s, "p!") || strings.HasPrefix(s, "|p!"):
		return "param"
	case strings.HasPrefix(s, "lit!"):
		return "lit"
	case strings.HasPrefix(s, "gaddr!") || strings.HasPrefix(s, "|gaddr!"):
		return "glob"
	}
	if _, ok := intLit(Term{s, SInt}); ok {
		return "int"
	}
	if strings.HasPrefix(s, "(") && entryPure(s) {
		return "old"
	}
	return ""
}

// oldHeapAxioms: every address stored in an entry-state heap is older than
// any object allocated during the call (brk! separates the two).
func (x *Exec) oldHeapAxioms(sy, name string, elem Sort) {
	if len(x.axioms[sy]) > 0 {
		return
	}
	x.declare("brk!", SInt)
	f := x.heapFrontierFact(Term{sy, ""}, name, elem, Term{"brk!", SInt})
	if f.S != "true" {
		x.axioms[sy] = []string{f.S}
	}
}

func (x *Exec) fieldIsPointer(heap string) bool {
	parts := strings.SplitN(heap[2:], "!", 2)
	if len(parts) != 2 {
		return false
	}
	for _, si := range x.P.structInfo {
		if si.Named == parts[0] {
			for _, f := range si.Fields {
				if cleanName(f.Name) == parts[1] {
					switch f.Ty.Underlying().(type) {
					case *types.Pointer, *types.Map:
						return true
					}
				}
			}
		}
	}
	return false
}

// readArr reads arr[key] peeling syntactic stores.
func readArr(arr Term, key Term, elem Sort) Term { return readArrSt(nil, arr, key, elem) }

func readArrSt(st *State, arr Term, key Term, elem Sort) Term {
	h := arr
	for {
		args, ok := splitApp(h.S, "store")
		if !ok || len(args) != 3 {
			break
		}
		if args[1] == key.S {
			return Term{args[2], elem}
		}
		if distinctSyn(args[1], key.S) || (st != nil && st.knowsNeq(args[1], key.S)) {
			h = Term{args[0], arr.Sort}
			continue
		}
		break
	}
	return Select(h, key, elem)
}

func elemSortOfHeap(hs Sort) Sort {
	// "(Array Int X)" -> X
	s := string(hs)
	s = strings.TrimPrefix(s, "(Array Int ")
	s = strings.TrimPrefix(s, "(Array Str ")
	return Sort(strings.TrimSuffix(s, ")"))
}

func (x *Exec) readLoc(st *State, l *Loc) Term {
	h := x.heap(st, l.Heap, l.Sort)
	switch l.Kind {
	case "elem":
		inner := readArrSt(st, h, l.Addr, Sort(fmt.Sprintf("(Array Int %s)", l.Sort)))
		return readArrSt(st, inner, l.Idx, l.Sort)
	default:
		return readArrSt(st, h, l.Addr, l.Sort)
	}
}

func (x *Exec) writeLoc(st *State, l *Loc, v Term) {
	h := x.heap(st, l.Heap, l.Sort)
	switch l.Kind {
	case "elem":
		is := Sort(fmt.Sprintf("(Array Int %s)", l.Sort))
		inner := readArr(h, l.Addr, is)
		st.heaps[l.Heap] = Store(h, l.Addr, Store(inner, l.Idx, v))
	default:
		st.heaps[l.Heap] = Store(h, l.Addr, v)
	}
}

func fieldHeap(si *StructI, i int) string {
	return fmt.Sprintf("F!%s!%s", si.Named, cleanName(si.Fields[i].Name))
}

func (x *Exec) subAddr(si *StructI, i int, addr Term) Term {
	f := x.declareFun(fmt.Sprintf("sub!%s!%s", si.Named, cleanName(si.Fields[i].Name)), []Sort{SInt}, SInt)
	if len(x.axioms[f]) == 0 {
		// the address of an embedded struct is non-nil iff the enclosing object's is
		x.declare("brk!", SInt)
		x.axioms[f] = []string{fmt.Sprintf("(forall ((a!s Int)) (! (=> (not (= a!s 0)) (not (= (%s a!s) 0))) :pattern ((%s a!s))))", f, f),
			// an embedded struct lives inside its enclosing object: both existed at entry, or neither
			fmt.Sprintf("(forall ((a!s Int)) (! (= (< (%s a!s) brk!) (< a!s brk!)) :pattern ((%s a!s))))", f, f)}
		// an embedded struct belongs to the same object as its container, one level
		// deeper, and the embedding is injective
		x.declareFun("objof", []Sort{SInt}, SInt)
		x.declareFun("depthof", []Sort{SInt}, SInt)
		inv := x.declareFun("inv!"+f, []Sort{SInt}, SInt)
		x.axioms[f] = append(x.axioms[f],
			fmt.Sprintf("(forall ((a!s Int)) (! (and (= (objof (%s a!s)) (objof a!s)) (= (depthof (%s a!s)) (+ (depthof a!s) 1)) (= (%s (%s a!s)) a!s)) :pattern ((%s a!s))))", f, f, inv, f, f))
		// two embedded structs of the same type in one object occupy different addresses
		for j, g := range si.Fields {
			if j != i && isStruct(g.Ty) && g.Sort == si.Fields[i].Sort {
				gn := x.declareFun(fmt.Sprintf("sub!%s!%s", si.Named, cleanName(g.Name)), []Sort{SInt}, SInt)
				x.axioms[f] = append(x.axioms[f], fmt.Sprintf("(forall ((a!s Int) (b!s Int)) (! (not (= (%s a!s) (%s b!s))) :pattern ((%s a!s) (%s b!s))))", f, gn, f, gn))
			}
		}
	}
	return App(f, SInt, addr)
}

func (x *Exec) elemAddr(key string, arr, idx Term) Term {
	f := x.declareFun("elem!"+key, []Sort{SInt, SInt}, SInt)
	if len(x.axioms[f]) == 0 {
		x.axioms[f] = []string{fmt.Sprintf("(forall ((a!s Int) (i!s Int)) (! (not (= (%s a!s i!s) 0)) :pattern ((%s a!s i!s))))", f, f)}
	}
	return App(f, SInt, arr, idx)
}

func isStruct(t types.Type) bool {
	_, ok := t.Underlying().(*types.Struct)
	return ok
}

func isArray(t types.Type) bool {
	_, ok := t.Underlying().(*types.Array)
	return ok
}

// loadStruct builds the value of the struct at addr from the field heaps.
func (x *Exec) loadStruct(st *State, t types.Type, addr Term) Term {
	si := x.P.structOf(t)
	fs := make([]Term, len(si.Fields))
	for i, f := range si.Fields {
		switch {
		case isStruct(f.Ty):
			fs[i] = x.loadStruct(st, f.Ty, x.subAddr(si, i, addr))
		case isArray(f.Ty):
			fs[i] = x.subAddr(si, i, addr)
		default:
			fs[i] = x.readLoc(st, &Loc{Kind: "field", Heap: fieldHeap(si, i), Addr: addr, Sort: f.Sort})
		}
	}
	return si.mk(fs)
}

func (x *Exec) storeStruct(st *State, t types.Type, addr Term, v Term) {
	si := x.P.structOf(t)
	for i, f := range si.Fields {
		fv := si.get(v, i)
		switch {
		case isStruct(f.Ty):
			x.storeStruct(st, f.Ty, x.subAddr(si, i, addr), fv)
		case isArray(f.Ty):
			// arrays inside structs (only [0]func() and sync internals): ignored
		default:
			x.writeLoc(st, &Loc{Kind: "field", Heap: fieldHeap(si, i), Addr: addr, Sort: f.Sort}, fv)
		}
	}
}

// ---------- well-formedness facts ----------

func intRange(b *types.Basic) (lo, hi string, ok bool) {
	switch b.Kind() {
	case types.Int, types.Int64:
		return "(- 9223372036854775808)", "9223372036854775807", true
	case types.Int32:
		return "(- 2147483648)", "2147483647", true
	case types.Int16:
		return "(- 32768)", "32767", true
	case types.Int8:
		return "(- 128)", "127", true
	case types.Uint, types.Uint64, types.Uintptr:
		return "0", "18446744073709551615", true
	case types.Uint32:
		return "0", "4294967295", true
	case types.Uint16:
		return "0", "65535", true
	case types.Uint8:
		return "0", "255", true
	case types.UntypedInt, types.UntypedRune:
		return "", "", false
	}
	return "", "", false
}

func (x *Exec) wf(v Term, t types.Type) Term {
	switch u := t.Underlying().(type) {
	case *types.Basic:
		if u.Info()&types.IsInteger != 0 {
			if lo, hi, ok := intRange(u); ok {
				return And(Le(BigInt(lo), v), Le(v, BigInt(hi)))
			}
		}
		if u.Info()&types.IsString != 0 {
			return And(Le(Int(0), StrLen(v)), Le(StrLen(v), BigInt("9223372036854775807")), Le(Int(0), StrOff(v)))
		}
	case *types.Slice:
		return And(Le(Int(0), SlLen(v)), Le(SlLen(v), SlCap(v)), Le(SlCap(v), BigInt("9223372036854775807")), Le(Int(0), SlOff(v)),
			Implies(Eq(SlArr(v), Int(0)), And(Eq(SlLen(v), Int(0)), Eq(SlCap(v), Int(0)))))
	case *types.Struct:
		si := x.P.structOf(t)
		var cs []Term
		for i, f := range si.Fields {
			if isArray(f.Ty) {
				continue
			}
			cs = append(cs, x.wf(si.get(v, i), f.Ty))
		}
		return And(cs...)
	}
	return True
}

// addrBound: every address held in a value of type t lies below the
// allocation frontier nx (allocator invariant of the language semantics).
func (x *Exec) addrBound(v Term, t types.Type, nx Term) Term {
	switch u := t.Underlying().(type) {
	case *types.Pointer, *types.Map, *types.Signature, *types.Chan:
		return Lt(v, nx)
	case *types.Slice:
		return Lt(SlArr(v), nx)
	case *types.Interface:
		return Lt(IfPtr(v), nx)
	case *types.Struct:
		si := x.P.structOf(t)
		var cs []Term
		for i, f := range si.Fields {
			if isArray(f.Ty) {
				continue
			}
			cs = append(cs, x.addrBound(si.get(v, i), f.Ty, nx))
		}
		_ = u
		return And(cs...)
	}
	return True
}

func (x *Exec) frontier(st *State) Term {
	if st.next.IsZero() {
		x.declare("brk!", SInt)
		st.next = Term{"brk!", SInt}
	}
	return st.next
}

// wfA: well-formedness plus the allocator invariant for a value read or
// received in state st.
func (x *Exec) wfA(st *State, v Term, t types.Type) Term {
	if strings.HasPrefix(v.S, "gval!") || strings.HasPrefix(v.S, "|gval!") {
		// package-level values are immutable after initialisation: whatever they
		// point to existed when the function under contract was entered
		x.declare("brk!", SInt)
		return And(x.wf(v, t), x.addrBound(v, t, Term{"brk!", SInt}))
	}
	return And(x.wf(v, t), x.addrBound(v, t, x.frontier(st)))
}

// heapFrontierFact: all addresses stored in a (freshly havoced) heap lie
// below the frontier nx.
func (x *Exec) heapFrontierFact(h Term, name string, elem Sort, nx Term) Term {
	sy := h.S
	switch {
	case name == "MV!":
		return Term{fmt.Sprintf("(forall ((m!s Int) (k!s Str)) (! (< (sarr (select (select %s m!s) k!s)) %s) :pattern ((select (select %s m!s) k!s))))", sy, nx.S, sy), SBool}
	case strings.HasPrefix(name, "E!") && elem == SSlice:
		return Term{fmt.Sprintf("(forall ((m!s Int) (i!s Int)) (! (< (sarr (select (select %s m!s) i!s)) %s) :pattern ((select (select %s m!s) i!s))))", sy, nx.S, sy), SBool}
	case strings.HasPrefix(name, "E!") && elem == SIface:
		return Term{fmt.Sprintf("(forall ((m!s Int) (i!s Int)) (! (< (iptr (select (select %s m!s) i!s)) %s) :pattern ((select (select %s m!s) i!s))))", sy, nx.S, sy), SBool}
	case (strings.HasPrefix(name, "F!") || strings.HasPrefix(name, "C!")) && elem == SSlice:
		return Term{fmt.Sprintf("(forall ((a!s Int)) (! (< (sarr (select %s a!s)) %s) :pattern ((select %s a!s))))", sy, nx.S, sy), SBool}
	case (strings.HasPrefix(name, "F!") || strings.HasPrefix(name, "C!")) && elem == SIface:
		return Term{fmt.Sprintf("(forall ((a!s Int)) (! (< (iptr (select %s a!s)) %s) :pattern ((select %s a!s))))", sy, nx.S, sy), SBool}
	case strings.HasPrefix(name, "F!") && elem == SInt && x.fieldIsPointer(name):
		return Term{fmt.Sprintf("(forall ((a!s Int)) (! (< (select %s a!s) %s) :pattern ((select %s a!s))))", sy, nx.S, sy), SBool}
	}
	return True
}

// ---------- loops ----------

func (x *Exec) findLoops() { x.findLoopsFor(x.fn, x.c) }

func (x *Exec) findLoopsFor(fn *ssa.Function, c *Contract) {
	if x.loopsDone == nil {
		x.loopsDone = map[*ssa.Function]bool{}
		x.loopOrd = map[*ssa.BasicBlock]int{}
		x.loopCon = map[*ssa.BasicBlock]*Contract{}
	}
	if x.loopsDone[fn] {
		return
	}
	x.loopsDone[fn] = true
	var heads []*ssa.BasicBlock
	for _, b := range fn.Blocks {
		for _, s := range b.Succs {
			if s.Dominates(b) {
				// back edge b -> s
				if x.loopOf[s] == nil {
					x.loopOf[s] = map[*ssa.BasicBlock]bool{s: true}
					heads = append(heads, s)
				}
				// natural loop: all nodes that reach b without passing s
				var stack []*ssa.BasicBlock
				if !x.loopOf[s][b] {
					x.loopOf[s][b] = true
					stack = append(stack, b)
				}
				for len(stack) > 0 {
					n := stack[len(stack)-1]
					stack = stack[:len(stack)-1]
					for _, p := range n.Preds {
						if !x.loopOf[s][p] {
							x.loopOf[s][p] = true
							stack = append(stack, p)
						}
					}
				}
			}
		}
	}
	sort.Slice(heads, func(i, j int) bool { return heads[i].Index < heads[j].Index })
	for i, h := range heads {
		x.loopOrd[h] = i
		x.loopCon[h] = c
	}
}

func (x *Exec) loopOrdinal(b *ssa.BasicBlock) int {
	if o, ok := x.loopOrd[b]; ok {
		return o
	}
	return -1
}

// heapsWrittenIn returns the heap names that instructions of the loop may write.
func (x *Exec) heapsWrittenIn(blocks map[*ssa.BasicBlock]bool) map[string]Sort {
	out := map[string]Sort{}
	for b := range blocks {
		for _, in := range b.Instrs {
			switch in := in.(type) {
			case *ssa.Store:
				x.staticHeaps(in.Addr, in.Val.Type(), out)
			case *ssa.MapUpdate:
				out["MP!"] = SBool
				out["MV!"] = SSlice
			case *ssa.Call:
				x.calleeWrites(in, out)
			}
		}
	}
	return out
}

func (x *Exec) staticHeaps(addr ssa.Value, vt types.Type, out map[string]Sort) {
	if isStruct(vt) {
		x.structHeaps(vt, out)
		return
	}
	switch a := addr.(type) {
	case *ssa.FieldAddr:
		si := x.P.structOf(a.X.Type())
		out[fieldHeap(si, a.Field)] = si.Fields[a.Field].Sort
	case *ssa.IndexAddr:
		s := x.P.sortOf(vt)
		out["E!"+string(s)] = s
	default:
		s := x.P.sortOf(vt)
		out["C!"+string(s)] = s
	}
}

func (x *Exec) structHeaps(t types.Type, out map[string]Sort) {
	si := x.P.structOf(t)
	for i, f := range si.Fields {
		if isStruct(f.Ty) {
			x.structHeaps(f.Ty, out)
		} else if !isArray(f.Ty) {
			out[fieldHeap(si, i)] = f.Sort
		}
	}
}

// ---------- main driver ----------

func (x *Exec) Run() (err error) {
	defer func() {
		if r := recover(); r != nil {
			if u, ok := r.(unsupported); ok {
				err = fmt.Errorf("out-of-subset: %s", u.msg)
				return
			}
			panic(r)
		}
	}()
	fn := x.fn
	if len(fn.Blocks) == 0 {
		return fmt.Errorf("no body")
	}
	x.findLoops()
	st := &State{vals: map[ssa.Value]Val{}, heaps: map[string]Term{}, names: map[string]Val{}, open: map[*ssa.BasicBlock]bool{},
		varnt: map[*ssa.BasicBlock][]Term{}, lallocs: map[*ssa.BasicBlock]int{}}
	st.entry = &Snapshot{heaps: map[string]Term{}, names: map[string]Val{}}
	bind := func(name string, v ssa.Value) {
		t := v.Type()
		pn := "p!" + name
		if r, ok := x.rename[name]; ok {
			pn = r // second copy of a self-composed run
		}
		x.declare(pn, x.P.sortOf(t))
		val := Val{T: Term{sym(pn), x.P.sortOf(t)}, Ty: t}
		st.vals[v] = val
		st.names[name] = val
		st.entry.names[name] = val
		st.assume(x.wf(val.T, t))
		x.params = append(x.params, NamedVal{name, val})
		st.assume(x.addrBound(val.T, t, x.frontier(st)))
	}
	for _, p := range fn.Params {
		bind(p.Name(), p)
	}
	for _, fv := range fn.FreeVars {
		// a captured variable is a pointer to its cell; in contracts its name
		// denotes the variable's value at entry
		bind("&"+fv.Name(), fv)
		st.assume(Ne(st.vals[fv].T, Int(0))) // the cell of a captured variable always exists
		if pt, ok := fv.Type().Underlying().(*types.Pointer); ok {
			v := x.derefVal(st, st.vals[fv], fv.Type())
			v.Ty = pt.Elem()
			st.assume(x.wf(v.T, v.Ty))
			st.names[fv.Name()] = v
			st.entry.names[fv.Name()] = v
		}
	}
	// requires
	for _, r := range x.c.Requires {
		if x.noSafety && strings.HasPrefix(r.Label, "forsafety") {
			continue // precondition needed only by safety / callee-precondition obligations
		}
		env := x.envFor(st, nil)
		t := x.trBool(env, r.E)
		st.assume(t)
	}
	if x.covers && len(x.c.Requires) > 0 {
		x.addCover(st, "cover/requires", nil, "the preconditions (with the well-formedness facts of the parameters) are satisfiable")
	}
	x.runBlock(st, fn.Blocks[0])
	return nil
}

// addCover records a vacuity cover: assumptions that must NOT be refutable.
func (x *Exec) addCover(st *State, name string, extra []Term, src string) {
	as := append([]Term(nil), st.pc...)
	as = append(as, extra...)
	x.coverVCs = append(x.coverVCs, &VC{Name: x.fname + "/" + name, Fn: x.fname, Kind: "cover", Assumes: as, Goal: False,
		Trace: strings.Join(st.trace, ">"), Src: src, uses: x.c.Lemmas})
}

func (x *Exec) envFor(st *State, results []Val) *Env {
	env := &Env{x: x, st: st, vars: map[string]Val{}, pkg: x.pkg}
	for k, v := range st.names {
		env.vars[k] = v
	}
	return env
}

func (x *Exec) addVC(st *State, kind, name, prop string, pos token.Pos, goal Term, src string) {
	if goal.S == "true" && kind == "safety" {
		return
	}
	if kind == "safety" && (x.noSafety || x.c.NoSafety) {
		return
	}
	if kind == "safety" && prop == "" {
		prop = "C17" // "no input can crash ...": a failed safety obligation is a C17 violation
	}
	if x.onlyProp != "" && prop != x.onlyProp {
		return
	}
	full := x.fname + "/" + name
	if x.relTag != "" {
		full += x.relTag
	}
	vc := &VC{Name: full, Fn: x.fname, Kind: kind, Prop: prop, Pos: x.P.pos(pos), Assumes: append([]Term(nil), st.pc...), Goal: goal,
		Trace: strings.Join(st.trace, ">"), Inputs: x.params, Src: src, uses: x.c.Lemmas}
	x.vcs = append(x.vcs, vc)
}

func (x *Exec) runBlock(st *State, b *ssa.BasicBlock) {
	if len(st.trace) > 4000 {
		x.unsup(b.Instrs[0].Pos(), "path too long")
	}
	st.trace = append(st.trace, fmt.Sprint(b.Index))
	// phis
	predIdx := -1
	if st.prev != nil {
		for i, p := range b.Preds {
			if p == st.prev {
				predIdx = i
				break
			}
		}
	}
	nphi := 0
	newVals := map[*ssa.Phi]Val{}
	for _, in := range b.Instrs {
		phi, ok := in.(*ssa.Phi)
		if !ok {
			break
		}
		nphi++
		if predIdx < 0 {
			x.unsup(phi.Pos(), "phi without predecessor")
		}
		newVals[phi] = x.val(st, phi.Edges[predIdx])
	}
	for phi, v := range newVals {
		v.Ty = phi.Type()
		st.vals[phi] = v
		if phi.Comment != "" {
			st.names[phi.Comment] = v
			if phi.Comment == "rangeint.iter" {
				st.names["rangeint"] = v
			}
		}
	}
	if body, isLoop := x.loopOf[b]; isLoop {
		ord := x.loopOrdinal(b)
		x.indexLoopAsRange(st, b, nphi)
		if st.open[b] {
			// back edge: re-establish invariant, variant decreases, allocs unchanged
			x.checkInvariants(st, b, ord, "preserve")
			x.checkVariant(st, b, ord)
			if st.allocs != st.lallocs[b] && x.c.Allocs >= 0 {
				x.addVC(st, "allocs", fmt.Sprintf("loop%d/allocs_unchanged", ord), "C18", b.Instrs[0].Pos(), False,
					fmt.Sprintf("loop body allocates (%d allocation sites on this path)", st.allocs-st.lallocs[b]))
			}
			x.paths++
			return
		}
		x.checkInvariants(st, b, ord, "entry")
		st = st.clone()
		// the allocation frontier after an unknown number of iterations
		nx := x.fresh("next", SInt)
		st.assume(Le(x.frontier(st), nx))
		st.next = nx
		// havoc loop-carried registers
		for _, in := range b.Instrs[:nphi] {
			phi := in.(*ssa.Phi)
			v := x.freshVal("loop", phi.Type())
			st.vals[phi] = v
			if phi.Comment != "" {
				st.names[phi.Comment] = v
				if phi.Comment == "rangeint.iter" {
					st.names["rangeint"] = v
				}
			}
			st.assume(x.wfA(st, v.T, phi.Type()))
		}
		x.indexLoopAsRange(st, b, nphi)
		written := x.heapsWrittenIn(body)
		for _, h := range sortedKeys(written) {
			s := written[h]
			hs := heapSort(h, s)
			nh := x.fresh("Hl!"+h, hs)
			st.heaps[h] = nh
			st.assume(x.heapFrontierFact(nh, h, s, nx))
		}
		st.open[b] = true
		st.lallocs[b] = st.allocs
		x.assumeInvariants(st, b, ord)
		st.varnt[b] = x.evalVariant(st, b, ord)
	}
	for _, in := range b.Instrs[nphi:] {
		if !x.step(st, in) {
			return
		}
	}
}

func (x *Exec) freshVal(prefix string, t types.Type) Val {
	if tup, ok := t.(*types.Tuple); ok {
		v := Val{Ty: t}
		for i := 0; i < tup.Len(); i++ {
			v.Tup = append(v.Tup, x.freshVal(prefix, tup.At(i).Type()))
		}
		return v
	}
	return Val{T: x.fresh(prefix, x.P.sortOf(t)), Ty: t}
}

func (x *Exec) invClausesAt(b *ssa.BasicBlock, kind string) []*Clause {
	c := x.loopCon[b]
	if c == nil {
		return nil
	}
	ord := x.loopOrd[b]
	var out []*Clause
	for _, cl := range c.Invs {
		if cl.Loop == ord && cl.Kind == kind {
			out = append(out, cl)
		}
	}
	return out
}

func (x *Exec) invClauses(ord int, kind string) []*Clause {
	var out []*Clause
	for _, c := range x.c.Invs {
		if c.Loop == ord && c.Kind == kind {
			out = append(out, c)
		}
	}
	return out
}

func (x *Exec) checkInvariants(st *State, b *ssa.BasicBlock, ord int, phase string) {
	for i, c := range x.invClausesAt(b, "invariant") {
		env := x.envFor(st, nil)
		t := x.trBool(env, c.E)
		lbl := c.Label
		if lbl == "" {
			lbl = fmt.Sprintf("inv%d", i)
		}
		x.addVC(st, "invariant", fmt.Sprintf("loop%d/%s/%s", ord, lbl, phase), c.Prop, b.Instrs[0].Pos(), t, c.Src)
	}
}

func (x *Exec) assumeInvariants(st *State, b *ssa.BasicBlock, ord int) {
	for _, c := range x.invClausesAt(b, "invariant") {
		env := x.envFor(st, nil)
		st.assume(x.trBool(env, c.E))
	}
}

func (x *Exec) evalVariant(st *State, b *ssa.BasicBlock, ord int) []Term {
	var out []Term
	for _, c := range x.invClausesAt(b, "decreases") {
		env := x.envFor(st, nil)
		v := x.tr(env, c.E)
		out = append(out, v.T)
	}
	return out
}

func (x *Exec) checkVariant(st *State, b *ssa.BasicBlock, ord int) {
	cls := x.invClausesAt(b, "decreases")
	if len(cls) == 0 {
		return
	}
	old := st.varnt[b]
	now := x.evalVariant(st, b, ord)
	// lexicographic decrease, bounded below by 0
	var goal Term = False
	var eqPrefix Term = True
	for i := range now {
		goal = Or(goal, And(eqPrefix, Lt(now[i], old[i]), Le(Int(0), old[i])))
		eqPrefix = And(eqPrefix, Eq(now[i], old[i]))
	}
	x.addVC(st, "decreases", fmt.Sprintf("loop%d/decreases", ord), "", b.Instrs[0].Pos(), goal, cls[0].Src)
}

// val returns the symbolic value of an SSA value in st.
func (x *Exec) val(st *State, v ssa.Value) Val {
	if r, ok := st.vals[v]; ok {
		return r
	}
	switch v := v.(type) {
	case *ssa.Const:
		t := v.Type()
		if v.Value == nil {
			return Val{T: x.P.zeroOf(t), Ty: t}
		}
		if b, ok := t.Underlying().(*types.Basic); ok && b.Info()&types.IsInteger != 0 {
			tm, _ := x.P.constTerm(v.Value, t)
			return Val{T: tm, Ty: t}
		}
		tm, err := x.P.constTerm(v.Value, t)
		if err != nil {
			x.unsup(token.NoPos, "%v", err)
		}
		return Val{T: tm, Ty: t}
	case *ssa.Global:
		return x.globalPtr(v)
	case *ssa.Function:
		return Val{T: Int(int64(1000000 + len(x.P.FnName))), Ty: v.Type()}
	case *ssa.Builtin:
		return Val{T: Int(0), Ty: v.Type()}
	}
	x.unsup(v.Pos(), "value %s (%T) has no binding", v.Name(), v)
	return Val{}
}

func (x *Exec) globalPtr(g *ssa.Global) Val {
	name := g.Pkg.Pkg.Name() + "." + g.Name()
	et := g.Type().(*types.Pointer).Elem()
	an := "gaddr!" + name
	x.declare(an, SInt)
	v := Val{T: Term{sym(an), SInt}, Ty: g.Type(), Glob: name}
	if !isStruct(et) {
		v.Loc = &Loc{Kind: "glob", Heap: name, Sort: x.P.sortOf(et), Ty: et}
	}
	return v
}

func (x *Exec) globalVal(name string, t types.Type) Term {
	n := "gval!" + name
	x.declare(n, x.P.sortOf(t))
	return Term{sym(n), x.P.sortOf(t)}
}

func (x *Exec) setVal(st *State, v ssa.Value, r Val) {
	if r.Ty == nil {
		r.Ty = v.Type()
	}
	st.vals[v] = r
}

// step executes one instruction; it returns false when the path ended.
func (x *Exec) step(st *State, in ssa.Instruction) bool {
	switch in := in.(type) {
	case *ssa.DebugRef:
		if id, ok := in.Expr.(*ast.Ident); ok && id.Name != "_" {
			if v, isVar := in.Object().(*types.Var); !isVar || v.IsField() {
				return true // only local variables and parameters are named in contracts
			}
			if _, isFn := in.X.(*ssa.Function); isFn {
				return true
			}
			if _, isG := in.X.(*ssa.Global); isG {
				return true
			}
			v := x.val(st, in.X)
			if in.IsAddr {
				p := v
				v = Val{Ref: &p, RefTy: in.X.Type()}
			}
			st.names[id.Name] = v
			if len(st.frames) == 0 {
				x.hintsAt(st, id.Name, in)
			}
		}
		return true
	case *ssa.If:
		c := x.val(st, in.Cond).T
		b := in.Block()
		// prune branches that contradict a fact already on the path
		if st.knows(c) {
			c = True
		} else if st.knows(Not(c)) {
			c = False
		}
		if c.S != "false" {
			s1 := st.clone()
			s1.assume(c)
			if c.S != "true" {
				s1.dec = append(s1.dec, c)
			}
			s1.prev = b
			x.runBlock(s1, b.Succs[0])
		}
		if c.S != "true" {
			s2 := st
			s2.assume(Not(c))
			if c.S != "false" {
				s2.dec = append(s2.dec, Not(c))
			}
			s2.prev = b
			x.runBlock(s2, b.Succs[1])
		}
		return false
	case *ssa.Jump:
		st.prev = in.Block()
		x.runBlock(st, in.Block().Succs[0])
		return false
	case *ssa.Return:
		x.doReturn(st, in)
		return false
	case *ssa.Panic:
		x.addVC(st, "safety", fmt.Sprintf("safety/panic@%s", x.P.pos(in.Pos())), "", in.Pos(), False, "explicit panic must be unreachable")
		x.paths++
		return false
	case *ssa.RunDefers:
		return true
	case *ssa.Store:
		x.doStore(st, in)
		return true
	case *ssa.MapUpdate:
		x.doMapUpdate(st, in)
		return true
	case *ssa.Go, *ssa.Defer, *ssa.Send, *ssa.Select:
		x.unsup(in.Pos(), "%T is outside the subset", in)
	case ssa.Value:
		return x.stepValue(st, in)
	}
	x.unsup(in.Pos(), "unhandled instruction %T", in)
	return false
}

// derefVal loads the value a pointer designates.
func (x *Exec) derefVal(st *State, p Val, pt types.Type) Val {
	et := pt.Underlying().(*types.Pointer).Elem()
	if p.Loc != nil {
		if p.Loc.Kind == "glob" {
			return Val{T: x.globalVal(p.Loc.Heap, et), Ty: et}
		}
		t := x.readLoc(st, p.Loc)
		return Val{T: t, Ty: et}
	}
	if isStruct(et) {
		if p.Glob != "" {
			return Val{T: x.globalVal(p.Glob, et), Ty: et}
		}
		a := p.T
		return Val{T: x.loadStruct(st, et, p.T), Ty: et, Addr: &a}
	}
	if isArray(et) {
		return Val{T: p.T, Ty: et}
	}
	// pointer to scalar held as plain address: cell
	s := x.P.sortOf(et)
	return Val{T: x.readLoc(st, &Loc{Kind: "cell", Heap: "C!" + string(s), Addr: p.T, Sort: s}), Ty: et}
}

func (x *Exec) nonNil(st *State, p Val, pos token.Pos, what string) {
	if p.Loc != nil && (p.Loc.Kind == "glob" || p.Loc.Kind == "elem") {
		return
	}
	if p.Glob != "" {
		return
	}
	var a Term
	if p.Loc != nil {
		a = p.Loc.Addr
	} else {
		a = p.T
	}
	if strings.HasPrefix(a.S, "alloc!") {
		return
	}
	if strings.HasPrefix(a.S, "(sub!") || strings.HasPrefix(a.S, "(|sub!") {
		// address of an embedded struct: non-nil iff the outer is (checked at FieldAddr)
		return
	}
	if strings.HasPrefix(a.S, "(elem!") {
		return
	}
	x.addVC(st, "safety", fmt.Sprintf("safety/nil-deref@%s", x.P.pos(pos)), "", pos, Ne(a, Int(0)), what)
}

func (x *Exec) doStore(st *State, in *ssa.Store) {
	p := x.val(st, in.Addr)
	v := x.val(st, in.Val)
	et := in.Addr.Type().Underlying().(*types.Pointer).Elem()
	x.nonNil(st, p, in.Pos(), "store through pointer")
	if p.Loc != nil {
		if p.Loc.Kind == "glob" {
			x.unsup(in.Pos(), "store to package-level variable %s", p.Loc.Heap)
		}
		x.writeLoc(st, p.Loc, v.T)
		return
	}
	if p.Glob != "" {
		x.unsup(in.Pos(), "store to package-level variable %s", p.Glob)
	}
	if isStruct(et) {
		x.storeStruct(st, et, p.T, v.T)
		return
	}
	s := x.P.sortOf(et)
	x.writeLoc(st, &Loc{Kind: "cell", Heap: "C!" + string(s), Addr: p.T, Sort: s}, v.T)
}

func (x *Exec) mapKey(st *State, k Val, pos token.Pos) Term {
	if strings.HasPrefix(k.T.S, "lit!") || strings.HasPrefix(k.T.S, "p!") || strings.HasPrefix(k.T.S, "|p!") {
		return k.T
	}
	x.unsup(pos, "map key must be a constant or a parameter (got %s)", k.T.S)
	return Term{}
}

func (x *Exec) mapRead(st *State, m Term, k Term) (val, present Term) {
	mp := x.heap(st, "MP!", SBool)
	mv := x.heap(st, "MV!", SSlice)
	pin := readArrSt(st, mp, m, "(Array Str Bool)")
	vin := readArrSt(st, mv, m, "(Array Str Slice)")
	present = x.share(readArrSt(st, pin, k, SBool))
	val = x.share(readArrSt(st, vin, k, SSlice))
	return
}

func (x *Exec) doMapUpdate(st *State, in *ssa.MapUpdate) {
	m := x.val(st, in.Map)
	k := x.mapKey(st, x.val(st, in.Key), in.Pos())
	v := x.val(st, in.Value)
	if !strings.HasPrefix(m.T.S, "alloc!") {
		x.addVC(st, "safety", fmt.Sprintf("safety/nil-map-write@%s", x.P.pos(in.Pos())), "", in.Pos(), Ne(m.T, Int(0)), "assignment to entry in nil map")
	}
	mp := x.heap(st, "MP!", SBool)
	mv := x.heap(st, "MV!", SSlice)
	pin := readArr(mp, m.T, "(Array Str Bool)")
	vin := readArr(mv, m.T, "(Array Str Slice)")
	st.heaps["MP!"] = Store(mp, m.T, Store(pin, k, True))
	st.heaps["MV!"] = Store(mv, m.T, Store(vin, k, v.T))
}

func (x *Exec) doReturn(st *State, in *ssa.Return) {
	if n := len(st.frames); n > 0 {
		// return from an inlined callee: bind the call's value, continue the caller
		fr := st.frames[n-1]
		st.frames = st.frames[:n-1]
		var rv Val
		switch len(in.Results) {
		case 0:
			rv = Val{Ty: fr.call.Type()}
		case 1:
			rv = x.val(st, in.Results[0])
		default:
			rv = Val{Ty: fr.call.Type()}
			for _, r := range in.Results {
				rv.Tup = append(rv.Tup, x.val(st, r))
			}
		}
		st.names = fr.names
		x.setVal(st, fr.call, rv)
		st.prev = nil
		if fr.collect != nil {
			*fr.collect = append(*fr.collect, st)
			return
		}
		x.continueAfter(st, fr.call)
		return
	}
	x.paths++
	if x.collect != nil {
		// self-composition: final states are collected instead of checked
		fin := st.clone()
		*x.collect = append(*x.collect, fin)
		return
	}
	if os.Getenv("GOVC_DEBUG") != "" && x.paths%50 == 0 {
		fmt.Fprintf(os.Stderr, "paths=%d vcs=%d trace=%d\n", x.paths, len(x.vcs), len(st.trace))
	}
	var results []Val
	for _, r := range in.Results {
		results = append(results, x.val(st, r))
	}
	env := x.postEnv(st, results)
	st.ensStart = len(st.pc)
	for i, c := range x.c.Ensures {
		if x.c.TrustedPost {
			x.trusted["postconditions of "+x.fname+" are assumed (body checked for safety only): "+x.c.TrustWhy] = true
			break
		}
		if x.onlyProp != "" && c.Prop != x.onlyProp {
			continue
		}
		t := x.trBool(env, c.E)
		lbl := c.Label
		if lbl == "" {
			lbl = fmt.Sprintf("post%d", i)
		}
		if x.covers && c.Prop != "" && (x.coverProp == "" || c.Prop == x.coverProp) {
			if b, ok := c.E.(EBin); ok && b.Op == "==>" {
				func() {
					defer func() { recover() }()
					prem := x.trBool(env, b.L)
					x.addCover(st, "cover/"+lbl, []Term{prem}, "the premise of the clause is reachable on at least one path: "+c.Src)
				}()
			}
		}
		x.addVC(st, "ensures", "ensures/"+lbl, c.Prop, in.Pos(), t, c.Src)
		// later postconditions may rely on earlier ones -- but only on those that
		// the check at hand also proves: a clause tagged with another property is
		// not an obligation of this property's check and must not be assumed by it
		// (a seeded change that broke a C11 clause made every later C03 clause
		// vacuously true).
		if x.forProp == "" || c.Prop == "" || c.Prop == x.forProp || alsoTag(x.forProp, c.Prop) {
			st.assume(t)
		}
	}
	if x.c.Allocs >= 0 && st.allocs > x.c.Allocs {
		x.addVC(st, "allocs", "allocs_bound", "C18", in.Pos(), False,
			fmt.Sprintf("path executes %d allocation sites, bound is %d", st.allocs, x.c.Allocs))
	}
	if st.allocs > x.maxAllocs {
		x.maxAllocs = st.allocs
	}
	x.checkFrame(st, in)
}

// postEnv: parameters denote entry values; results bound by name.
func (x *Exec) postEnv(st *State, results []Val) *Env {
	env := &Env{x: x, st: st, vars: map[string]Val{}, pkg: x.pkg, post: true}
	for k, v := range st.names {
		env.vars[k] = v
	}
	for k, v := range st.entry.names {
		env.vars[k] = v
	}
	sig := x.fn.Signature
	for i := 0; i < sig.Results().Len() && i < len(results); i++ {
		r := sig.Results().At(i)
		rv := results[i]
		rv.Ty = r.Type()
		if r.Name() != "" && r.Name() != "_" {
			env.vars[r.Name()] = rv
		}
		env.vars[fmt.Sprintf("result%d", i)] = rv
		if sig.Results().Len() == 1 {
			env.vars["result"] = rv
		}
	}
	return env
}

// hintsAt: intermediate assertions ("hint when v: E"): proved as their own
// obligation in the state right after v is bound, then available as a fact.
func (x *Exec) hintsAt(st *State, name string, in *ssa.DebugRef) {
	if x.c == nil {
		return
	}
	for i, h := range x.c.Hints {
		if h.Label != name && x.localRenames()[h.Label] != name {
			continue
		}
		key := fmt.Sprintf("%d@%p", i, in.Block())
		if st.hinted == nil {
			st.hinted = map[string]bool{}
		}
		if st.hinted[key] {
			continue
		}
		st.hinted[key] = true
		env := x.envFor(st, nil)
		t := x.trBool(env, h.E)
		x.addVC(st, "invariant", fmt.Sprintf("hint/%s#%d", name, i), h.Prop, in.Pos(), t, h.Src)
		st.assume(t)
	}
}

// indexLoopAsRange: contracts written for a `for ... range` loop name the
// hidden induction variable `rangeindex` (-1 before the first element, then
// the index of the element last started). When the loop has been rewritten as
// `for i := 0; i < n; i++`, its header has no such register; if it has exactly
// one integer register that starts at 0 and is incremented by 1, `rangeindex`
// is read as that register minus one, which is the same quantity.
func (x *Exec) indexLoopAsRange(st *State, b *ssa.BasicBlock, nphi int) {
	var cand *ssa.Phi
	for _, in := range b.Instrs[:nphi] {
		phi := in.(*ssa.Phi)
		if phi.Comment == "rangeindex" || phi.Comment == "rangeint.iter" {
			return
		}
		bt, ok := phi.Type().Underlying().(*types.Basic)
		if !ok || bt.Kind() != types.Int || len(phi.Edges) != 2 {
			continue
		}
		zero, step := false, false
		for _, e := range phi.Edges {
			if c, ok := e.(*ssa.Const); ok && c.Value != nil && c.Value.ExactString() == "0" {
				zero = true
			}
			if bo, ok := e.(*ssa.BinOp); ok && bo.Op == token.ADD && bo.X == ssa.Value(phi) {
				if c, ok := bo.Y.(*ssa.Const); ok && c.Value != nil && c.Value.ExactString() == "1" {
					step = true
				}
			}
		}
		if zero && step {
			if cand != nil {
				return // ambiguous
			}
			cand = phi
		}
	}
	if cand == nil {
		return
	}
	v := st.vals[cand]
	if v.T.IsZero() {
		return
	}
	st.names["rangeindex"] = Val{T: Sub(v.T, Int(1)), Ty: cand.Type()}
}
