package main

import (
	"fmt"
	"go/token"
	"go/types"
	"strings"

	"golang.org/x/tools/go/ssa"
)

func pow2(n int) string {
	switch n {
	case 8:
		return "256"
	case 16:
		return "65536"
	case 32:
		return "4294967296"
	case 64:
		return "18446744073709551616"
	}
	return "1"
}

func intBits(b *types.Basic) (bits int, signed bool) {
	switch b.Kind() {
	case types.Int, types.Int64:
		return 64, true
	case types.Int32:
		return 32, true
	case types.Int16:
		return 16, true
	case types.Int8:
		return 8, true
	case types.Uint, types.Uint64, types.Uintptr:
		return 64, false
	case types.Uint32:
		return 32, false
	case types.Uint16:
		return 16, false
	case types.Uint8:
		return 8, false
	}
	return 64, true
}

// wrap reduces a mathematical integer into the range of type b (two's complement).
func wrapInt(v Term, b *types.Basic) Term {
	bits, signed := intBits(b)
	m := BigInt(pow2(bits))
	if n, ok := intLit(v); ok {
		lo, hi, _ := intRange(b)
		_ = lo
		_ = hi
		if !signed && n >= 0 && (bits == 64 || n < 1<<uint(bits)) {
			return v
		}
		if signed && bits == 64 {
			return v
		}
	}
	if !signed {
		return App("mod", SInt, v, m)
	}
	half := BigInt(pow2(bits - 0))
	_ = half
	// signed: ((v + 2^(bits-1)) mod 2^bits) - 2^(bits-1)
	var h string
	switch bits {
	case 8:
		h = "128"
	case 16:
		h = "32768"
	case 32:
		h = "2147483648"
	default:
		h = "9223372036854775808"
	}
	return Sub(App("mod", SInt, Add(v, BigInt(h)), m), BigInt(h))
}

func (x *Exec) stepValue(st *State, in ssa.Value) bool {
	if c, ok := in.(*ssa.Call); ok {
		return x.doCall(st, c)
	}
	x.stepValue1(st, in)
	return true
}

func (x *Exec) stepValue1(st *State, in ssa.Value) {
	instr := in.(ssa.Instruction)
	pos := instr.Pos()
	switch in := in.(type) {
	case *ssa.Alloc:
		x.doAlloc(st, in)
	case *ssa.BinOp:
		x.doBinOp(st, in)
	case *ssa.UnOp:
		x.doUnOp(st, in)
	case *ssa.ChangeType:
		v := x.val(st, in.X)
		x.setVal(st, in, x.changeType(v, in.X.Type(), in.Type()))
	case *ssa.ChangeInterface:
		v := x.val(st, in.X)
		v.Ty = in.Type()
		x.setVal(st, in, v)
	case *ssa.Convert:
		x.doConvert(st, in)
	case *ssa.Extract:
		t := x.val(st, in.Tuple)
		if in.Index >= len(t.Tup) {
			x.unsup(pos, "extract from non-tuple")
		}
		x.setVal(st, in, t.Tup[in.Index])
	case *ssa.Field:
		v := x.val(st, in.X)
		si := x.P.structOf(in.X.Type())
		x.setVal(st, in, Val{T: si.get(v.T, in.Field), Ty: in.Type()})
	case *ssa.FieldAddr:
		p := x.val(st, in.X)
		si := x.P.structOf(in.X.Type())
		x.nonNil(st, p, pos, "field address of nil pointer")
		f := si.Fields[in.Field]
		if p.Glob != "" {
			x.unsup(pos, "address of a field of package-level variable %s", p.Glob)
		}
		if isStruct(f.Ty) || isArray(f.Ty) {
			x.setVal(st, in, Val{T: x.subAddr(si, in.Field, p.T), Ty: in.Type()})
		} else {
			x.setVal(st, in, Val{T: p.T, Loc: &Loc{Kind: "field", Heap: fieldHeap(si, in.Field), Addr: p.T, Sort: f.Sort, Ty: f.Ty}, Ty: in.Type()})
		}
	case *ssa.Index:
		xv := x.val(st, in.X)
		iv := x.val(st, in.Index)
		if b, ok := in.X.Type().Underlying().(*types.Basic); ok && b.Info()&types.IsString != 0 {
			x.addVC(st, "safety", fmt.Sprintf("safety/index@%s", x.P.pos(pos)), "", pos,
				And(Le(Int(0), iv.T), Lt(iv.T, StrLen(xv.T))), "string index in range")
			bt := StrByte(xv.T, iv.T)
			st.assume(And(Le(Int(0), bt), Le(bt, Int(255))))
			x.setVal(st, in, Val{T: bt, Ty: in.Type()})
			return
		}
		x.unsup(pos, "index of %s", in.X.Type())
	case *ssa.IndexAddr:
		x.doIndexAddr(st, in)
	case *ssa.Lookup:
		xv := x.val(st, in.X)
		if _, ok := in.X.Type().Underlying().(*types.Map); !ok {
			x.unsup(pos, "lookup on %s", in.X.Type())
		}
		k := x.mapKey(st, x.val(st, in.Index), pos)
		val, present := x.mapRead(st, xv.T, k)
		et := in.X.Type().Underlying().(*types.Map).Elem()
		st.assume(x.wfA(st, val, et))
		st.assume(Implies(Not(present), Eq(val, x.P.zeroOf(et))))
		st.assume(Implies(Eq(xv.T, Int(0)), Not(present)))
		if in.CommaOk {
			x.setVal(st, in, Val{Tup: []Val{{T: val, Ty: et}, {T: present, Ty: types.Typ[types.Bool]}}, Ty: in.Type()})
		} else {
			x.setVal(st, in, Val{T: val, Ty: et})
		}
	case *ssa.MakeInterface:
		v := x.val(st, in.X)
		id := x.P.typeID(in.X.Type())
		var payload Term
		if _, ok := in.X.Type().Underlying().(*types.Pointer); ok {
			payload = v.T
		} else if _, ok := in.X.Type().Underlying().(*types.Signature); ok && v.T.Sort == SInt {
			payload = v.T // a func value is pointer-shaped: the interface holds it directly
		} else {
			payload = x.freshAlloc(st)
			st.allocs++
		}
		x.setVal(st, in, Val{T: MkIface(Int(int64(id)), payload), Ty: in.Type()})
	case *ssa.MakeMap:
		a := x.freshAlloc(st)
		st.allocs++
		mp := x.heap(st, "MP!", SBool)
		st.heaps["MP!"] = Store(mp, a, Term{"((as const (Array Str Bool)) false)", "(Array Str Bool)"})
		x.setVal(st, in, Val{T: a, Ty: in.Type()})
	case *ssa.MakeSlice:
		ln := x.val(st, in.Len).T
		cp := x.val(st, in.Cap).T
		x.addVC(st, "safety", fmt.Sprintf("safety/makeslice@%s", x.P.pos(pos)), "", pos, And(Le(Int(0), ln), Le(ln, cp)), "make: len out of range")
		a := x.freshAlloc(st)
		st.allocs++
		x.setVal(st, in, Val{T: MkSlice(a, Int(0), ln, cp), Ty: in.Type()})
	case *ssa.MakeClosure:
		st.allocs++
		a := x.fresh("closure", SInt)
		// ghost description of the closure: which function it runs and what it captured
		if fn, ok := in.Fn.(*ssa.Function); ok {
			cf := x.declareFun("closfn", []Sort{SInt}, SInt)
			st.assume(Eq(App(cf, SInt, a), Int(int64(x.P.typeID(closureKey{qualName(fn)})))))
			cv := x.declareFun("closfv", []Sort{SInt, SInt}, SInt)
			for i, b := range in.Bindings {
				if bv := x.val(st, b); bv.T.Sort == SInt {
					st.assume(Eq(App(cv, SInt, a, Int(int64(i))), bv.T))
				}
			}
		}
		st.assume(Ne(a, Int(0)))
		x.setVal(st, in, Val{T: a, Ty: in.Type()})
	case *ssa.Slice:
		x.doSlice(st, in)
	case *ssa.TypeAssert:
		v := x.val(st, in.X)
		if _, isIface := in.AssertedType.Underlying().(*types.Interface); isIface {
			ok := x.fresh("assertok", SBool)
			if in.CommaOk {
				x.setVal(st, in, Val{Tup: []Val{{T: v.T, Ty: in.AssertedType}, {T: ok, Ty: types.Typ[types.Bool]}}, Ty: in.Type()})
			} else {
				x.addVC(st, "safety", fmt.Sprintf("safety/type-assert@%s", x.P.pos(pos)), "", pos, False, "type assertion to interface may panic")
				x.setVal(st, in, Val{T: v.T, Ty: in.AssertedType})
			}
			return
		}
		id := Int(int64(x.P.typeID(in.AssertedType)))
		ok := Eq(IfTyp(v.T), id)
		res := Val{T: IfPtr(v.T), Ty: in.AssertedType}
		if in.CommaOk {
			x.setVal(st, in, Val{Tup: []Val{res, {T: ok, Ty: types.Typ[types.Bool]}}, Ty: in.Type()})
		} else {
			x.addVC(st, "safety", fmt.Sprintf("safety/type-assert@%s", x.P.pos(pos)), "", pos, ok, "type assertion")
			x.setVal(st, in, res)
		}
	case *ssa.Phi:
		x.unsup(pos, "phi in the middle of a block")
	default:
		x.unsup(pos, "unhandled value instruction %T", in)
	}
}

func (x *Exec) freshAlloc(st *State) Term {
	x.nfresh++
	n := fmt.Sprintf("alloc!%d", x.nfresh)
	x.declare(n, SInt)
	a := Term{n, SInt}
	// a new object sits at the allocation frontier, which then advances
	nx := x.frontier(st)
	st.assume(And(Lt(Int(0), a), Eq(a, nx)))
	st.next = Add(nx, Int(1))
	// a freshly allocated object is its own container, at nesting depth 0
	x.declareFun("objof", []Sort{SInt}, SInt)
	x.declareFun("depthof", []Sort{SInt}, SInt)
	st.assume(And(Eq(App("objof", SInt, a), a), Eq(App("depthof", SInt, a), Int(0))))
	return a
}

func (x *Exec) changeType(v Val, from, to types.Type) Val {
	v.Ty = to
	return v
}

func (x *Exec) doAlloc(st *State, in *ssa.Alloc) {
	et := in.Type().(*types.Pointer).Elem()
	a := x.freshAlloc(st)
	if in.Heap {
		st.allocs++
	}
	switch {
	case isStruct(et):
		x.storeStruct(st, et, a, x.P.zeroOf(et))
		x.setVal(st, in, Val{T: a, Ty: in.Type()})
	case isArray(et):
		x.setVal(st, in, Val{T: a, Ty: in.Type()})
	default:
		s := x.P.sortOf(et)
		l := &Loc{Kind: "cell", Heap: "C!" + string(s), Addr: a, Sort: s, Ty: et}
		x.writeLoc(st, l, x.P.zeroOf(et))
		x.setVal(st, in, Val{T: a, Loc: l, Ty: in.Type()})
	}
}

func (x *Exec) doIndexAddr(st *State, in *ssa.IndexAddr) {
	pos := in.Pos()
	xv := x.val(st, in.X)
	iv := x.val(st, in.Index).T
	var arr, idx, bound Term
	var et types.Type
	switch t := in.X.Type().Underlying().(type) {
	case *types.Slice:
		et = t.Elem()
		arr, idx, bound = SlArr(xv.T), Add(SlOff(xv.T), iv), SlLen(xv.T)
	case *types.Pointer:
		at := t.Elem().Underlying().(*types.Array)
		et = at.Elem()
		x.nonNil(st, xv, pos, "index of nil array pointer")
		arr, idx, bound = xv.T, iv, Int(at.Len())
	default:
		x.unsup(pos, "IndexAddr on %s", in.X.Type())
	}
	x.addVC(st, "safety", fmt.Sprintf("safety/index@%s", x.P.pos(pos)), "", pos, And(Le(Int(0), iv), Lt(iv, bound)), "index in range")
	if isStruct(et) {
		x.setVal(st, in, Val{T: x.elemAddr(typeKeyOf(x.P, et), arr, idx), Ty: in.Type()})
		return
	}
	s := x.P.sortOf(et)
	x.setVal(st, in, Val{Loc: &Loc{Kind: "elem", Heap: "E!" + string(s), Addr: arr, Idx: idx, Sort: s, Ty: et}, Ty: in.Type()})
}

func typeKeyOf(P *Prog, t types.Type) string {
	return P.structOf(t).Named
}

func (x *Exec) doSlice(st *State, in *ssa.Slice) {
	pos := in.Pos()
	xv := x.val(st, in.X)
	opt := func(v ssa.Value, def Term) Term {
		if v == nil {
			return def
		}
		return x.val(st, v).T
	}
	switch t := in.X.Type().Underlying().(type) {
	case *types.Basic: // string
		lo := opt(in.Low, Int(0))
		hi := opt(in.High, StrLen(xv.T))
		x.addVC(st, "safety", fmt.Sprintf("safety/slice@%s", x.P.pos(pos)), "", pos,
			And(Le(Int(0), lo), Le(lo, hi), Le(hi, StrLen(xv.T))), "string slice bounds")
		x.setVal(st, in, Val{T: StrSlice(xv.T, lo, hi), Ty: in.Type()})
	case *types.Slice:
		lo := opt(in.Low, Int(0))
		hi := opt(in.High, SlLen(xv.T))
		mx := opt(in.Max, SlCap(xv.T))
		x.addVC(st, "safety", fmt.Sprintf("safety/slice@%s", x.P.pos(pos)), "", pos,
			And(Le(Int(0), lo), Le(lo, hi), Le(hi, mx), Le(mx, SlCap(xv.T))), "slice bounds")
		x.setVal(st, in, Val{T: MkSlice(SlArr(xv.T), Add(SlOff(xv.T), lo), Sub(hi, lo), Sub(mx, lo)), Ty: in.Type()})
	case *types.Pointer:
		at := t.Elem().Underlying().(*types.Array)
		n := Int(at.Len())
		lo := opt(in.Low, Int(0))
		hi := opt(in.High, n)
		mx := opt(in.Max, n)
		x.addVC(st, "safety", fmt.Sprintf("safety/slice@%s", x.P.pos(pos)), "", pos,
			And(Le(Int(0), lo), Le(lo, hi), Le(hi, mx), Le(mx, n)), "array slice bounds")
		x.setVal(st, in, Val{T: MkSlice(xv.T, lo, Sub(hi, lo), Sub(mx, lo)), Ty: in.Type()})
	default:
		x.unsup(pos, "slice of %s", in.X.Type())
	}
}

func (x *Exec) strEq(a, b Term) Term {
	if a.S == b.S {
		return True
	}
	la, aok := x.P.litValue(a)
	lb, bok := x.P.litValue(b)
	switch {
	case aok && bok:
		return Bool(la == lb)
	case aok:
		return x.eqLit(b, la)
	case bok:
		return x.eqLit(a, lb)
	}
	f := x.declareFun("streq", []Sort{SStr, SStr}, SBool)
	return App(f, SBool, a, b)
}

func (x *Exec) eqLit(s Term, lit string) Term {
	cs := []Term{Eq(StrLen(s), Int(int64(len(lit))))}
	if len(lit) > 64 {
		// long literals: compare through the opaque relation
		f := x.declareFun("streq", []Sort{SStr, SStr}, SBool)
		return App(f, SBool, s, x.P.strLit(lit))
	}
	for i := 0; i < len(lit); i++ {
		cs = append(cs, Eq(StrByte(s, Int(int64(i))), Int(int64(lit[i]))))
	}
	return And(cs...)
}

func (x *Exec) strLt(a, b Term) Term {
	f := x.declareFun("strlt", []Sort{SStr, SStr}, SBool)
	return App(f, SBool, a, b)
}

func (x *Exec) overflowVC(st *State, r Term, b *types.Basic, pos token.Pos, what string) {
	lo, hi, ok := intRange(b)
	if !ok {
		return
	}
	x.addVC(st, "safety", fmt.Sprintf("safety/overflow@%s", x.P.pos(pos)), "", pos, And(Le(BigInt(lo), r), Le(r, BigInt(hi))), what+" does not overflow "+b.Name())
}

func (x *Exec) doBinOp(st *State, in *ssa.BinOp) {
	a := x.val(st, in.X)
	b := x.val(st, in.Y)
	pos := in.Pos()
	xt := in.X.Type().Underlying()
	basic, _ := xt.(*types.Basic)
	isStr := basic != nil && basic.Info()&types.IsString != 0
	isIntT := basic != nil && basic.Info()&types.IsInteger != 0
	set := func(t Term) { x.setVal(st, in, Val{T: t, Ty: in.Type()}) }
	switch in.Op {
	case token.EQL, token.NEQ:
		var eq Term
		switch {
		case isStr:
			eq = x.strEq(a.T, b.T)
		case x.P.sortOf(in.X.Type()) == SSlice:
			// only comparison with nil is legal Go
			if isNilConst(in.Y) {
				eq = Eq(SlArr(a.T), Int(0))
			} else {
				eq = Eq(SlArr(b.T), Int(0))
			}
		default:
			eq = Eq(a.T, b.T)
		}
		if in.Op == token.NEQ {
			eq = Not(eq)
		}
		set(eq)
	case token.LSS, token.LEQ, token.GTR, token.GEQ:
		if isStr {
			lt := func(p, q Term) Term { return x.strLt(p, q) }
			switch in.Op {
			case token.LSS:
				set(lt(a.T, b.T))
			case token.GTR:
				set(lt(b.T, a.T))
			case token.LEQ:
				set(Not(lt(b.T, a.T)))
			case token.GEQ:
				set(Not(lt(a.T, b.T)))
			}
			return
		}
		switch in.Op {
		case token.LSS:
			set(Lt(a.T, b.T))
		case token.LEQ:
			set(Le(a.T, b.T))
		case token.GTR:
			set(Gt(a.T, b.T))
		case token.GEQ:
			set(Ge(a.T, b.T))
		}
	case token.ADD, token.SUB, token.MUL:
		if isStr && in.Op == token.ADD {
			r := x.fresh("concat", SStr)
			st.assume(And(Eq(StrLen(r), Add(StrLen(a.T), StrLen(b.T))), Le(Int(0), StrOff(r))))
			st.allocs++
			set(r)
			return
		}
		if !isIntT {
			x.unsup(pos, "arithmetic on %s", in.X.Type())
		}
		var r Term
		switch in.Op {
		case token.ADD:
			r = Add(a.T, b.T)
		case token.SUB:
			r = Sub(a.T, b.T)
		case token.MUL:
			r = Mul(a.T, b.T)
		}
		bits, _ := intBits(basic)
		if bits < 64 {
			set(wrapInt(r, basic)) // small types: exact modular semantics
		} else {
			x.overflowVC(st, r, basic, pos, in.Op.String())
			set(r)
		}
	case token.QUO, token.REM:
		if !isIntT {
			x.unsup(pos, "division on %s", in.X.Type())
		}
		x.addVC(st, "safety", fmt.Sprintf("safety/div-by-zero@%s", x.P.pos(pos)), "", pos, Ne(b.T, Int(0)), "division by zero")
		// Go truncates toward zero; SMT div is floor for positive divisor. Only
		// non-negative operands occur; require it.
		_, signed := intBits(basic)
		if signed {
			x.addVC(st, "safety", fmt.Sprintf("safety/div-sign@%s", x.P.pos(pos)), "", pos, And(Le(Int(0), a.T), Lt(Int(0), b.T)), "division modelled for non-negative operands only")
		}
		if in.Op == token.QUO {
			set(App("div", SInt, a.T, b.T))
		} else {
			set(App("mod", SInt, a.T, b.T))
		}
	case token.AND, token.OR, token.XOR, token.SHL, token.SHR, token.AND_NOT:
		opName := map[token.Token]string{token.AND: "and", token.OR: "or", token.XOR: "xor", token.SHL: "shl", token.SHR: "shr", token.AND_NOT: "andnot"}[in.Op]
		f := x.declareFun("bitop!"+opName, []Sort{SInt, SInt}, SInt)
		r := App(f, SInt, a.T, b.T)
		st.assume(x.wf(r, in.Type()))
		// exact arithmetic meaning of the two idioms that index bit sets: for an
		// unsigned x, x >> k is x div 2^k and x & (2^k - 1) is x mod 2^k
		if _, signed := intBits(basic); isIntT && !signed {
			if k, ok := intLit(b.T); ok && k >= 0 && k < 62 {
				switch in.Op {
				case token.SHR:
					st.assume(Eq(r, App("div", SInt, a.T, Int(int64(1)<<uint(k)))))
				case token.AND:
					if m := k + 1; m&(m-1) == 0 { // k = 2^j - 1
						st.assume(Eq(r, App("mod", SInt, a.T, Int(m))))
					}
				}
			}
		}
		set(r)
	default:
		x.unsup(pos, "binary operator %s", in.Op)
	}
}

func isNilConst(v ssa.Value) bool {
	c, ok := v.(*ssa.Const)
	return ok && c.Value == nil
}

func (x *Exec) doUnOp(st *State, in *ssa.UnOp) {
	a := x.val(st, in.X)
	pos := in.Pos()
	switch in.Op {
	case token.NOT:
		x.setVal(st, in, Val{T: Not(a.T), Ty: in.Type()})
	case token.SUB:
		b := in.X.Type().Underlying().(*types.Basic)
		r := Sub(Int(0), a.T)
		bits, _ := intBits(b)
		if bits < 64 {
			r = wrapInt(r, b)
		} else {
			x.overflowVC(st, r, b, pos, "negation")
		}
		x.setVal(st, in, Val{T: r, Ty: in.Type()})
	case token.MUL:
		x.nonNil(st, a, pos, "load through pointer")
		v := x.derefVal(st, a, in.X.Type())
		st.assume(x.wfA(st, v.T, v.Ty))
		x.setVal(st, in, v)
	case token.XOR:
		r := x.fresh("bitnot", SInt)
		st.assume(x.wf(r, in.Type()))
		x.setVal(st, in, Val{T: r, Ty: in.Type()})
	default:
		x.unsup(pos, "unary operator %s", in.Op)
	}
}

func (x *Exec) doConvert(st *State, in *ssa.Convert) {
	v := x.val(st, in.X)
	from, fok := in.X.Type().Underlying().(*types.Basic)
	to, tok := in.Type().Underlying().(*types.Basic)
	if fok && tok && from.Info()&types.IsInteger != 0 && to.Info()&types.IsInteger != 0 {
		flo, fhi, _ := intRange(from)
		tlo, thi, _ := intRange(to)
		if from.Kind() == to.Kind() || (flo != "" && rangeWithin(from, to)) {
			_ = fhi
			_ = tlo
			_ = thi
			x.setVal(st, in, Val{T: v.T, Ty: in.Type()})
			return
		}
		x.setVal(st, in, Val{T: wrapInt(v.T, to), Ty: in.Type()})
		return
	}
	if fok && tok && from.Info()&types.IsInteger != 0 && to.Info()&types.IsString != 0 {
		// string(byte/rune): a fresh string (1..4 bytes)
		r := x.fresh("runestr", SStr)
		st.assume(And(Le(Int(1), StrLen(r)), Le(StrLen(r), Int(4)), Le(Int(0), StrOff(r))))
		st.allocs++
		x.setVal(st, in, Val{T: r, Ty: in.Type()})
		return
	}
	if fok && tok && from.Info()&types.IsString != 0 && to.Info()&types.IsString != 0 {
		x.setVal(st, in, Val{T: v.T, Ty: in.Type()})
		return
	}
	x.unsup(in.Pos(), "conversion %s -> %s", in.X.Type(), in.Type())
}

func rangeWithin(from, to *types.Basic) bool {
	fb, fs := intBits(from)
	tb, ts := intBits(to)
	switch {
	case fs == ts:
		return fb <= tb
	case !fs && ts:
		return fb < tb
	}
	return false
}

// checkFrame: obligations about what a function may have modified (assigns).
func (x *Exec) checkFrame(st *State, in *ssa.Return) {
	// Pure functions: the symbolic heaps must be syntactically unchanged
	// except for cells/fields of objects allocated in this call.
	if !x.c.Pure {
		return
	}
	for name, h := range st.heaps {
		e0, ok := st.entry.heaps[name]
		if !ok {
			continue
		}
		if h.S == e0.S {
			continue
		}
		// peel stores to fresh allocations
		cur := h
		for {
			args, ok := splitApp(cur.S, "store")
			if !ok || len(args) != 3 {
				break
			}
			if !strings.Contains(args[1], "alloc!") {
				break // (addresses derived from a local allocation, e.g. embedded structs, are local too)
			}
			cur = Term{args[0], cur.Sort}
		}
		if cur.S != e0.S {
			x.addVC(st, "frame", "frame/pure/"+name, "", in.Pos(), False, "function declared pure modifies heap "+name)
		}
	}
}
