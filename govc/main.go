package main

import (
	"encoding/json"
	"flag"
	"fmt"
	"go/ast"
	"go/types"
	"os"
	"path/filepath"
	"regexp"
	"runtime"
	"sort"
	"strings"
	"sync"
	"time"
)

func main() {
	if len(os.Args) < 2 {
		fmt.Fprintln(os.Stderr, "usage: govc check|vcs ...")
		os.Exit(2)
	}
	switch os.Args[1] {
	case "check":
		os.Exit(cmdCheck(os.Args[2:]))
	case "vcs":
		os.Exit(cmdVCs(os.Args[2:]))
	case "replay":
		os.Exit(cmdReplay(os.Args[2:]))
	default:
		fmt.Fprintln(os.Stderr, "unknown command", os.Args[1])
		os.Exit(2)
	}
}

func verifDir() string {
	if d := os.Getenv("VERIF_DIR"); d != "" {
		return d
	}
	exe, err := os.Executable()
	if err == nil {
		return filepath.Dir(filepath.Dir(exe))
	}
	return "/verif"
}

func cmdVCs(args []string) int {
	fs := flag.NewFlagSet("vcs", flag.ExitOnError)
	fn := fs.String("fn", "", "function (qualified)")
	repo := fs.String("repo", "/repo", "repository")
	dump := fs.Bool("dump", false, "print full queries")
	run := fs.Bool("run", true, "discharge")
	only := fs.String("only", "", "substring filter on VC names")
	timeout := fs.Int("timeout", 10, "solver timeout (s)")
	propF := fs.String("prop", "", "only VCs tagged with this property (plus untagged if --untagged)")
	untagged := fs.Bool("untagged", false, "with --prop: include untagged VCs")
	fs.Parse(args)
	P, err := LoadProg(*repo, filepath.Join(verifDir(), "spec"))
	if err != nil {
		fmt.Fprintln(os.Stderr, "load:", err)
		return 2
	}
	var names []string
	for n := range P.Specs.Contracts {
		if *fn == "" || n == *fn || strings.HasSuffix(n, "."+*fn) {
			names = append(names, n)
		}
	}
	sort.Strings(names)
	work := filepath.Join(verifDir(), ".work", fmt.Sprint(os.Getpid()))
	os.MkdirAll(work, 0o755)
	defer os.RemoveAll(work)
	r := &Runner{Dir: work, TimeoutS: *timeout}
	bad := 0
	for _, n := range names {
		c := P.Specs.Contracts[n]
		f := P.Funcs[n]
		if f == nil || c.Trusted {
			continue
		}
		x := NewExec(P, f, c)
		x.forProp = *propF
		if up := os.Getenv("GOVC_UNMERGED"); up != "" {
			x.noMergeAll = true
			x.onlyProp = up
		}
		if err := x.Run(); err != nil {
			fmt.Printf("%s: %v\n", n, err)
			bad++
			continue
		}
		x.lemmaText = (&Check{P: P, assume: map[string]bool{}}).lemmaTexts(x, c.Lemmas)
		fmt.Printf("== %s: %d VCs, %d paths, max alloc sites on a path: %d\n", n, len(x.vcs), x.paths, x.maxAllocs)
		if *propF != "" {
			ck := &Check{P: P, Prop: *propF, Tier: "quick", Verif: verifDir()}
			var jobs []job
			for _, vc := range x.vcs {
				if vc.Prop == *propF || (*untagged && vc.Prop == "") {
					if *only == "" || strings.Contains(vc.Name, *only) {
						jobs = append(jobs, job{x, vc})
					}
				}
			}
			t0 := time.Now()
			ck.discharge(jobs)
			cnt := map[string]int{}
			fails := map[string]int{}
			for _, r := range ck.results {
				cnt[r.Status]++
				if r.Status != "unsat" {
					fails[r.VC.Name+" "+r.Status]++
					if fails[r.VC.Name+" "+r.Status] <= 2 {
						fmt.Printf("FAIL %s %s [%s] %s\n", r.VC.Name, r.Status, r.VC.Trace, strings.Join(r.Tried, " "))
					}
					bad++
				}
			}
			fmt.Printf("%d jobs %v in %.1fs\n", len(jobs), cnt, time.Since(t0).Seconds())
			for k, v := range fails {
				fmt.Printf("  %4d x %s\n", v, k)
			}
			continue
		}
		for _, vc := range x.vcs {
			if *only != "" && !strings.Contains(vc.Name, *only) {
				continue
			}
			if *dump {
				fmt.Printf("---- %s [%s] %s\n%s\n", vc.Name, vc.Kind, vc.Src, x.buildQuery(vc, x.lemmaFacts(vc), nil))
			}
			if *run {
				res := r.Discharge(x, vc)
				mark := "ok  "
				if res.Status != "unsat" {
					mark = "FAIL"
					bad++
				}
				fmt.Printf("%s %-70s %-8s %-7s %.2fs  %s [%s]\n", mark, vc.Name, res.Status, res.Solver, res.Seconds, vc.Src, vc.Trace)
				if res.Status == "error" {
					fmt.Println("    solver said:", firstLines(res.Output, 3))
				}
			}
		}
	}
	if bad > 0 {
		return 1
	}
	return 0
}

type Evidence struct {
	PropertyID  string         `json:"property_id"`
	Tier        string         `json:"tier"`
	Seed        int            `json:"seed"`
	Level       string         `json:"level"`
	Coverage    map[string]any `json:"coverage"`
	Assumptions []string       `json:"assumptions"`
	WallS       float64        `json:"wall_s"`
	Violations  int            `json:"violations"`
}

type job struct {
	x  *Exec
	vc *VC
}

func cmdCheck(args []string) int {
	fs := flag.NewFlagSet("check", flag.ExitOnError)
	prop := fs.String("property", "", "property id")
	tier := fs.String("tier", "quick", "quick|thorough")
	repo := fs.String("repo", "/repo", "repository")
	fs.Parse(args)
	if t := os.Getenv("VERIF_TIER"); t != "" && *tier == "" {
		*tier = t
	}
	t0 := time.Now()
	vd := verifDir()
	P, err := LoadProg(*repo, filepath.Join(vd, "spec"))
	if err != nil {
		fmt.Fprintln(os.Stderr, "engine error: load:", err)
		return 2
	}
	pc, ok := propChecks[*prop]
	if !ok {
		fmt.Fprintln(os.Stderr, "engine error: no check registered for", *prop)
		return 2
	}
	ck := &Check{P: P, Prop: *prop, Tier: *tier, Verif: vd, T0: t0}
	return pc(ck)
}

// cmdReplay re-examines a recorded violation on the CURRENT tree of /repo:
// it prints what the replay file recorded (obligation, clause, solver verdict,
// decoded model and, where there is one, the failing input found on the real
// code) and re-runs the quick check of its property with all output going to a
// scratch directory; exit 1 if the recorded obligation still fails, 0 if it
// now discharges.
func cmdReplay(args []string) int {
	if len(args) < 1 {
		fmt.Fprintln(os.Stderr, "usage: govc replay <replay file>")
		return 2
	}
	b, err := os.ReadFile(args[0])
	if err != nil {
		fmt.Fprintln(os.Stderr, "engine error:", err)
		return 2
	}
	var rec map[string]any
	if err := json.Unmarshal(b, &rec); err != nil {
		fmt.Fprintln(os.Stderr, "engine error:", err)
		return 2
	}
	prop, _ := rec["property"].(string)
	obl, _ := rec["obligation"].(string)
	if obl == "" {
		obl, _ = rec["name"].(string)
	}
	if prop == "" {
		// replay files live in replays/<property>/
		prop = filepath.Base(filepath.Dir(args[0]))
	}
	fmt.Printf("replay of %s\n  property:   %s\n  obligation: %s\n", args[0], prop, obl)
	for _, k := range []string{"clause", "kind", "position", "path", "solver_status", "observed", "error"} {
		if v, ok := rec[k]; ok && fmt.Sprint(v) != "" {
			fmt.Printf("  %s: %v\n", k, v)
		}
	}
	for _, k := range []string{"model", "replay_on_real_code", "concrete_search_on_real_code", "failing_cases"} {
		if v, ok := rec[k]; ok && v != nil {
			jb, _ := json.MarshalIndent(v, "  ", " ")
			fmt.Printf("  %s: %s\n", k, jb)
		}
	}
	pc, ok := propChecks[prop]
	if !ok {
		fmt.Fprintln(os.Stderr, "engine error: no check registered for", prop)
		return 2
	}
	vd := verifDir()
	P, err := LoadProg("/repo", filepath.Join(vd, "spec"))
	if err != nil {
		fmt.Fprintln(os.Stderr, "engine error: load:", err)
		return 2
	}
	out, err := os.MkdirTemp(filepath.Join(vd, ".work"), "replay-")
	if err != nil {
		os.MkdirAll(filepath.Join(vd, ".work"), 0o755)
		out, err = os.MkdirTemp(filepath.Join(vd, ".work"), "replay-")
		if err != nil {
			fmt.Fprintln(os.Stderr, "engine error:", err)
			return 2
		}
	}
	defer os.RemoveAll(out)
	fmt.Printf("re-running the quick check of %s on the current tree ...\n", prop)
	ck := &Check{P: P, Prop: prop, Tier: "quick", Verif: vd, Out: out, T0: time.Now()}
	rc := pc(ck)
	var ev struct {
		Coverage map[string]any `json:"coverage"`
	}
	eb, _ := os.ReadFile(filepath.Join(out, "evidence", prop+".json"))
	json.Unmarshal(eb, &ev)
	still := false
	if fl, ok := ev.Coverage["failed"].([]any); ok {
		for _, f := range fl {
			if m, ok := f.(map[string]any); ok && (m["obligation"] == obl || unsafeName.ReplaceAllString(fmt.Sprint(m["obligation"]), "_") == unsafeName.ReplaceAllString(obl, "_")) {
				still = true
			}
		}
	}
	if !still && rc == 1 && obl != "" {
		// data / bounded / flow obligations are not listed under coverage.failed
		files, _ := filepath.Glob(filepath.Join(out, "replays", prop, "*.json"))
		for _, f := range files {
			if strings.HasPrefix(filepath.Base(f), unsafeName.ReplaceAllString(obl, "_")) {
				still = true
			}
		}
	}
	if still {
		fmt.Printf("REPRODUCED property=%s obligation=%s still fails on the current tree\n", prop, obl)
		return 1
	}
	fmt.Printf("NOT REPRODUCED property=%s obligation=%s discharges on the current tree (check exit code %d)\n", prop, obl, rc)
	return 0
}

// Check is the per-property run context.
type Check struct {
	P     *Prog
	Prop  string
	Tier  string
	Verif string
	Out   string // where evidence and replays are written ("" = Verif)
	T0    time.Time

	results      []*Result
	execs        []*Exec
	outOfSub     []string
	bounded      []map[string]any
	dataObl      []map[string]any
	dataFactDone map[string]bool
	crossLight   bool
	coverJobs    []job
	unmerged     bool
	replayExtra  func(r *Result) (map[string]any, bool)
	flowObl      []map[string]any
	assume       map[string]bool
	explanation  string
	extraCov     map[string]any
	violation    []string
	known        []string
	engineErr    []string
}

func (ck *Check) timeout() int {
	if ck.Tier == "thorough" {
		return 60
	}
	return 20
}

// verifyFunctions generates and discharges the obligations of all functions
// whose contract lists the property.
func (ck *Check) verifyFunctions(filter func(c *Contract) bool) {
	P := ck.P
	var names []string
	for n, c := range P.Specs.Contracts {
		if filter(c) {
			names = append(names, n)
		}
	}
	sort.Strings(names)
	var jobs []job
	for _, n := range names {
		c := P.Specs.Contracts[n]
		f := P.Funcs[n]
		if c.Trusted {
			continue
		}
		if f == nil {
			ck.engineErr = append(ck.engineErr, "contract for unknown function "+n)
			continue
		}
		x := NewExec(P, f, c)
		x.forProp = ck.Prop
		if ck.unmerged {
			x.noMergeAll = true
			x.onlyProp = ck.Prop
		}
		if ck.Tier == "thorough" {
			x.covers = true
			x.coverProp = ck.Prop
		}
		err := x.Run()
		if len(x.localRenames()) > 0 && x.renameChoices > 1 {
			// Locals named by the contract were renamed and several pairings of old
			// and new names are possible: use the first pairing under which every
			// obligation of the function discharges (obligations are proved, so a
			// wrong pairing cannot make anything pass that should not).
			for k := 0; k < x.renameChoices && k < 24; k++ {
				xk := x
				if k > 0 {
					xk = NewExec(P, f, c)
					xk.noMergeAll, xk.onlyProp, xk.covers, xk.coverProp, xk.renamePerm, xk.forProp = x.noMergeAll, x.onlyProp, x.covers, x.coverProp, k, x.forProp
					if xk.Run() != nil {
						continue
					}
				} else if err != nil {
					continue
				}
				xk.lemmaText = ck.lemmaTexts(xk, c.Lemmas)
				var js []job
				for _, vc := range xk.vcs {
					if vc.Prop != "" && vc.Prop != ck.Prop && !alsoTag(ck.Prop, vc.Prop) {
						continue
					}
					js = append(js, job{xk, vc})
				}
				saved := ck.results
				ck.results = nil
				ck.discharge(js)
				all := true
				for _, r := range ck.results {
					if r.Status != "unsat" {
						all = false
					}
				}
				ck.results = saved
				if all {
					x, err = xk, nil
					break
				}
			}
		}
		if err != nil {
			ck.outOfSub = append(ck.outOfSub, fmt.Sprintf("%s: %v", n, err))
			continue
		}
		x.lemmaText = ck.lemmaTexts(x, c.Lemmas)
		ck.execs = append(ck.execs, x)
		for _, vc := range x.coverVCs {
			ck.coverJobs = append(ck.coverJobs, job{x, vc})
		}
		for _, vc := range x.vcs {
			if vc.Prop != "" && vc.Prop != ck.Prop && !alsoTag(ck.Prop, vc.Prop) {
				continue
			}
			jobs = append(jobs, job{x, vc})
		}
	}
	ck.discharge(jobs)
}

func (ck *Check) discharge(jobs []job) {
	work := filepath.Join(ck.Verif, ".work", fmt.Sprint(os.Getpid()))
	os.MkdirAll(work, 0o755)
	defer os.RemoveAll(work)
	r := &Runner{Dir: work, TimeoutS: ck.timeout(), Thorough: ck.Tier == "thorough", CrossLight: ck.crossLight || len(jobs) > 1500}
	res := make([]*Result, len(jobs))
	var wg sync.WaitGroup
	sem := make(chan struct{}, runtime.NumCPU())
	for i := range jobs {
		wg.Add(1)
		sem <- struct{}{}
		go func(i int) {
			defer wg.Done()
			defer func() { <-sem }()
			res[i] = r.Discharge(jobs[i].x, jobs[i].vc)
		}(i)
	}
	wg.Wait()
	ck.results = append(ck.results, res...)
}

// dischargeCovers runs the vacuity covers (thorough tier): a cover is a set of
// assumptions that must not be refutable. A group of covers with the same name
// (one per path) is vacuous if the solver refutes every one of them.
func (ck *Check) dischargeCovers() {
	if len(ck.coverJobs) == 0 {
		return
	}
	work := filepath.Join(ck.Verif, ".work", fmt.Sprint(os.Getpid())+"c")
	os.MkdirAll(work, 0o755)
	defer os.RemoveAll(work)
	type cres struct {
		name string
		st   string
	}
	res := make([]cres, len(ck.coverJobs))
	var wg sync.WaitGroup
	sem := make(chan struct{}, runtime.NumCPU())
	for i := range ck.coverJobs {
		wg.Add(1)
		sem <- struct{}{}
		go func(i int) {
			defer wg.Done()
			defer func() { <-sem }()
			j := ck.coverJobs[i]
			q := j.x.buildQuery(j.vc, j.x.lemmaFacts(j.vc), nil)
			st, _, _ := runSolver(solvers[0], work, fmt.Sprintf("cover%05d", i), q, 3)
			res[i] = cres{j.vc.Name, st}
		}(i)
	}
	wg.Wait()
	groups := map[string][]string{}
	for _, r := range res {
		groups[r.name] = append(groups[r.name], r.st)
	}
	var vacuous []string
	satisfiable := 0
	for _, n := range sortedKeys(groups) {
		all := true
		for _, st := range groups[n] {
			if st != "unsat" {
				all = false
			}
			if st == "sat" {
				satisfiable++
			}
		}
		if all {
			vacuous = append(vacuous, n)
			ck.engineErr = append(ck.engineErr, "vacuity: "+n+" is refutable on every path (contradictory precondition or unreachable premise)")
		}
	}
	if ck.extraCov == nil {
		ck.extraCov = map[string]any{}
	}
	ck.extraCov["vacuity_covers"] = map[string]any{"covers": len(res), "groups": len(groups), "answered_sat": satisfiable, "vacuous_groups": vacuous,
		"meaning": "per function: its preconditions; per property clause of the form A ==> B: A together with some path condition; a group is vacuous only if z3 refutes it on every path (3 s each; unknown counts as not refuted)"}
	ck.coverJobs = nil
}

func (ck *Check) outDir() string {
	if ck.Out != "" {
		return ck.Out
	}
	return ck.Verif
}

func writeJSON(path string, v any) error {
	b, err := json.MarshalIndent(v, "", " ")
	if err != nil {
		return err
	}
	os.MkdirAll(filepath.Dir(path), 0o755)
	return os.WriteFile(path, append(b, '\n'), 0o644)
}

// cmdLocals prints, for every function contract, the `local` declarations of
// the local variables its loop / hint / onappend clauses mention.
func cmdLocals() {
	P, err := LoadProg("/repo", filepath.Join(verifDir(), "spec"))
	if err != nil {
		fmt.Println(err)
		os.Exit(2)
	}
	idRe := regexp.MustCompile(`[A-Za-z_][A-Za-z0-9_]*`)
	for _, n := range sortedKeys(P.Specs.Contracts) {
		c := P.Specs.Contracts[n]
		f := P.Funcs[n]
		if f == nil || f.Syntax() == nil {
			continue
		}
		used := map[string]bool{}
		add := func(cs []*Clause) {
			for _, cl := range cs {
				for _, id := range idRe.FindAllString(cl.Src, -1) {
					used[id] = true
				}
			}
		}
		add(c.Hints)
		for _, h := range c.Hints {
			used[strings.TrimPrefix(h.Label, "before:")] = true
		}
		add(c.OnAppend)
		add(c.Invs)
		if len(used) == 0 {
			continue
		}
		params := map[string]bool{}
		for _, p := range f.Params {
			params[p.Name()] = true
		}
		var info *types.Info
		for _, pk := range P.Pkgs {
			if pk.Types == f.Pkg.Pkg {
				info = pk.TypesInfo
			}
		}
		if info == nil {
			continue
		}
		found := map[string]string{}
		var order []string
		ast.Inspect(f.Syntax(), func(nd ast.Node) bool {
			if id, ok := nd.(*ast.Ident); ok {
				if obj, ok := info.Defs[id].(*types.Var); ok && obj != nil && !obj.IsField() && id.Name != "_" && !params[id.Name] {
					if _, dup := found[id.Name]; !dup {
						order = append(order, id.Name) // ast.Inspect visits in source order
					}
					found[id.Name] = typeStr(obj.Type())
				}
			}
			return true
		})
		if len(found) == 0 {
			continue
		}
		fmt.Printf("%s %s\n", c.File, n)
		for _, k := range order {
			fmt.Printf("//@   local %s %s\n", k, found[k])
		}
	}
}

func init() {
	if len(os.Args) > 1 && os.Args[1] == "locals" {
		cmdLocals()
		os.Exit(0)
	}
	if len(os.Args) > 2 && os.Args[1] == "ssa" {
		P, err := LoadProg("/repo", filepath.Join(verifDir(), "spec"))
		if err != nil {
			fmt.Println(err)
			os.Exit(2)
		}
		if f := P.Funcs[os.Args[2]]; f != nil {
			f.WriteTo(os.Stdout)
		} else {
			fmt.Println("no such function")
		}
		os.Exit(0)
	}
}

// alsoTags: obligations tagged for one property that another property's
// check depends on (C08: a rejected Reconfigure presupposes that every
// invalid configuration is rejected, which are C04's obligations).
var alsoTags = map[string][]string{"C08": {"C04"}}

func alsoTag(prop, tag string) bool {
	for _, t := range alsoTags[prop] {
		if t == tag {
			return true
		}
	}
	return false
}
