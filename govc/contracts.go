package main

// Contract files: comment-only Go files (//go:build verif) in /repo and
// spec files in /verif/spec. Lines start with "//@".

import (
	"fmt"
	"os"
	"path/filepath"
	"regexp"
	"strconv"
	"strings"
)

type Clause struct {
	Kind  string // requires, ensures, invariant, decreases, assert-at...
	Label string // optional label, e.g. "C14.equiv"
	Prop  string // property id if label starts with Cnn
	Loop  int    // loop ordinal for invariant/decreases
	Src   string
	E     Expr
	File  string
	Line  int
}

type Contract struct {
	Fn          string // qualified: pkg.Name or pkg.Recv.Name
	Pkg         string
	Props       []string
	Requires    []*Clause
	Ensures     []*Clause
	Invs        []*Clause // invariant + decreases
	Pure        bool
	Trusted     bool   // body is not verified (external or abstracted)
	TrustWhy    string // reason text for evidence
	Inline      bool
	TrustedPost bool     // body is verified for safety, its postconditions are assumed (reason in TrustWhy)
	Frozen      []string // heap-name prefixes read in the entry state by abstract predicates (separation assumption)
	NoMerge     bool     // transparent callee whose return paths are continued separately
	Transparent bool     // private loop-free helper executed in place at its call sites (no contract boundary)
	ByExec      bool     // contract is discharged by exhaustive execution over the full (finite) input domain
	Allocs      int      // -1 = unspecified
	Assigns     []*Clause
	Reads       []string // explicit heap names (trusted contracts)
	Fresh       []string
	Params      []string // names given in header for external functions (optional)
	ParamTys    []string
	ResNames    []string
	ResTys      []string
	Ghost       []*Clause
	File        string
	Line        int
	Opaque      bool // callers see only declared ensures (default)
	NoSafety    bool
	Unfold      []*Clause
	Lemmas      []string // names of lemmas whose statements are assumed in this function's VCs
	Hints       []*Clause
	Locals      map[string]string // local variables the contract names, with their types: lets a renamed local be re-bound
	LocalsOrd   []string          // ... in the order of their declarations in the source when the contract was written
	OnAppend    []*Clause         // obligations on every error value appended in the function (bound as e)
}

type SpecFn struct {
	Name    string
	Params  []string
	PTypes  []string
	RType   string
	Body    Expr
	Src     string
	Rec     bool
	Uninter bool
	Pkg     string
	Ensures []*Clause // facts instantiated at every ground application (uninterpreted spec functions)
	Reads   []string
	File    string
	Line    int
}

type Lemma struct {
	Name     string
	Vars     []string
	VTypes   []string
	Body     Expr // closed formula (forall ...)
	Src      string
	Axiom    bool // assumed, listed in trusted base
	DataFact bool // a Go boolean expression over package-level values, discharged by executing it
	NoAssume bool // datacheck: executed on every run, but not handed to the solver as a fact
	Uses     []string
	Pkg      string
	Props    []string
	File     string
	Line     int
}

type Specs struct {
	Contracts map[string]*Contract
	SpecFns   map[string]*SpecFn
	Lemmas    map[string]*Lemma
	LemmaOrd  []string
	Files     []string
}

var kwRe = regexp.MustCompile(`^(func|spec|lemma|axiom|datafact|datacheck|requires|ensures|loop|pure|trusted|inline|byexec|transparent|frozen|onappend|trustedpost|allocs|assigns|reads|props|fresh|nosafety|uses|hint|local)\b`)

func LoadSpecs(files []string) (*Specs, error) {
	sp := &Specs{Contracts: map[string]*Contract{}, SpecFns: map[string]*SpecFn{}, Lemmas: map[string]*Lemma{}}
	for _, f := range files {
		if err := sp.loadFile(f); err != nil {
			return nil, err
		}
		sp.Files = append(sp.Files, f)
	}
	return sp, nil
}

type rawLine struct {
	text string
	line int
}

func (sp *Specs) loadFile(path string) error {
	data, err := os.ReadFile(path)
	if err != nil {
		return err
	}
	pkg := ""
	var logical []rawLine
	for i, ln := range strings.Split(string(data), "\n") {
		t := strings.TrimSpace(ln)
		if strings.HasPrefix(t, "package ") && pkg == "" {
			pkg = strings.TrimSpace(strings.TrimPrefix(t, "package "))
			continue
		}
		if !strings.HasPrefix(t, "//@") {
			continue
		}
		body := strings.TrimSpace(t[3:])
		if body == "" || strings.HasPrefix(body, "#") {
			continue
		}
		if i := strings.Index(body, " //#"); i >= 0 { // trailing comment
			body = strings.TrimSpace(body[:i])
		}
		if kwRe.MatchString(body) || len(logical) == 0 {
			logical = append(logical, rawLine{body, i + 1})
		} else {
			logical[len(logical)-1].text += " " + body
		}
	}
	if pkg == "" {
		pkg = strings.TrimSuffix(filepath.Base(path), filepath.Ext(path))
	}
	var cur *Contract
	var curSpec *SpecFn
	for _, rl := range logical {
		fail := func(f string, a ...any) error {
			return fmt.Errorf("%s:%d: %s", path, rl.line, fmt.Sprintf(f, a...))
		}
		kw := kwRe.FindString(rl.text)
		rest := strings.TrimSpace(rl.text[len(kw):])
		switch kw {
		case "func":
			name, params, ptys, rnames, rtys, err := parseFuncHeader(rest)
			if err != nil {
				return fail("%v", err)
			}
			if !strings.Contains(rest, "::") {
				name = pkg + "." + name
			}
			cur = &Contract{Fn: name, Pkg: pkg, Allocs: -1, File: path, Line: rl.line,
				Params: params, ParamTys: ptys, ResNames: rnames, ResTys: rtys}
			if _, dup := sp.Contracts[name]; dup {
				return fail("duplicate contract for %s", name)
			}
			sp.Contracts[name] = cur
			curSpec = nil
		case "spec":
			sf, err := parseSpecFn(rest)
			if err != nil {
				return fail("%v", err)
			}
			sf.File, sf.Line = path, rl.line
			sf.Pkg = pkg
			if _, dup := sp.SpecFns[sf.Name]; dup {
				return fail("duplicate spec function %s", sf.Name)
			}
			sp.SpecFns[sf.Name] = sf
			cur = nil
			curSpec = sf
		case "lemma", "axiom", "datafact", "datacheck":
			i := strings.Index(rest, ":")
			if i < 0 {
				return fail("lemma needs 'name: formula'")
			}
			headStr := rest[:i]
			var lparams, ltys []string
			if a := strings.Index(headStr, "("); a >= 0 {
				if b := strings.Index(headStr, ")"); b > a {
					lparams, ltys = splitParams(headStr[a+1 : b])
					headStr = headStr[:a] + headStr[b+1:]
				}
			}
			head := strings.Fields(headStr)
			lm := &Lemma{Name: head[0], Vars: lparams, VTypes: ltys, Axiom: kw == "axiom", DataFact: kw == "datafact" || kw == "datacheck", NoAssume: kw == "datacheck", Src: strings.TrimSpace(rest[i+1:]), File: path, Line: rl.line}
			for _, h := range head[1:] {
				if strings.HasPrefix(h, "uses=") {
					lm.Uses = strings.Split(h[5:], ",")
				} else if strings.HasPrefix(h, "props=") {
					lm.Props = strings.Split(h[6:], ",")
				}
			}
			e, err := ParseSpecExpr(lm.Src)
			if err != nil {
				return fail("%v", err)
			}
			lm.Body = e
			lm.Pkg = pkg
			sp.Lemmas[lm.Name] = lm
			sp.LemmaOrd = append(sp.LemmaOrd, lm.Name)
			cur = nil
		default:
			if cur == nil && curSpec != nil && kw == "ensures" {
				cl, err := parseClause(kw, rest, path, rl.line)
				if err != nil {
					return fail("%v", err)
				}
				curSpec.Ensures = append(curSpec.Ensures, cl)
				continue
			}
			if cur == nil {
				return fail("clause %q outside a func block", kw)
			}
			switch kw {
			case "pure":
				cur.Pure = true
			case "trusted":
				cur.Trusted = true
				cur.TrustWhy = rest
			case "inline":
				cur.Inline = true
			case "trustedpost":
				cur.TrustedPost = true
				cur.TrustWhy = rest
			case "byexec":
				cur.ByExec = true
			case "transparent":
				cur.Transparent = true
				if strings.Contains(rest, "nomerge") {
					cur.NoMerge = true
				}
			case "frozen":
				cur.Frozen = append(cur.Frozen, strings.Fields(rest)...)
			case "nosafety":
				cur.NoSafety = true
			case "props":
				cur.Props = append(cur.Props, strings.Fields(strings.ReplaceAll(rest, ",", " "))...)
			case "local":
				f := strings.Fields(rest)
				if len(f) < 2 {
					return fail("local <name> <type>")
				}
				if cur.Locals == nil {
					cur.Locals = map[string]string{}
				}
				cur.Locals[f[0]] = strings.Join(f[1:], " ")
				cur.LocalsOrd = append(cur.LocalsOrd, f[0])
			case "uses":
				cur.Lemmas = append(cur.Lemmas, strings.Fields(strings.ReplaceAll(rest, ",", " "))...)
			case "reads":
				cur.Reads = append(cur.Reads, strings.Fields(strings.ReplaceAll(rest, ",", " "))...)
			case "allocs":
				r := strings.TrimSpace(strings.TrimPrefix(strings.TrimSpace(rest), "<="))
				n, err := strconv.Atoi(r)
				if err != nil {
					return fail("allocs <= K expected")
				}
				cur.Allocs = n
			case "hint":
				// "hint when <var>: E" -- proved, then assumed, right after <var> is bound
				f := strings.Fields(rest)
				if len(f) < 3 || (f[0] != "when" && f[0] != "before") {
					return fail("hint when <var>: E  |  hint before <callee>: E")
				}
				v := strings.TrimSuffix(f[1], ":")
				if f[0] == "before" {
					v = "before:" + v // proved, then assumed, right before a call to <callee>
				}
				src := strings.TrimSpace(rest[strings.Index(rest, f[1])+len(f[1]):])
				hc, err := parseClause("hint", src, path, rl.line)
				if err != nil {
					return fail("%v", err)
				}
				hc.Label = v
				cur.Hints = append(cur.Hints, hc)
			case "requires", "ensures", "assigns", "fresh", "onappend":
				cl, err := parseClause(kw, rest, path, rl.line)
				if err != nil {
					return fail("%v", err)
				}
				switch kw {
				case "requires":
					cur.Requires = append(cur.Requires, cl)
				case "ensures":
					cur.Ensures = append(cur.Ensures, cl)
				case "assigns":
					cur.Assigns = append(cur.Assigns, cl)
				case "onappend":
					cur.OnAppend = append(cur.OnAppend, cl)
				}
			case "loop":
				f := strings.Fields(rest)
				if len(f) < 3 {
					return fail("loop N invariant|decreases E")
				}
				n, err := strconv.Atoi(f[0])
				if err != nil {
					return fail("loop ordinal expected")
				}
				k := f[1]
				if k != "invariant" && k != "decreases" {
					return fail("loop N invariant|decreases E")
				}
				src := strings.TrimSpace(rest[strings.Index(rest, k)+len(k):])
				cl, err := parseClause(k, src, path, rl.line)
				if err != nil {
					return fail("%v", err)
				}
				cl.Loop = n
				cur.Invs = append(cur.Invs, cl)
			}
		}
	}
	return nil
}

func isRecvQual(name string) bool {
	// "Tree.Contains" (one dot, first part capitalised or a type) cannot be told
	// from "pkg.Func" syntactically; contracts inside a package file always
	// omit the package, so any dotted name there is Recv.Method. External
	// functions are written with a slash-free import path prefix and '::',
	// e.g. "strings::IndexByte".
	return !strings.Contains(name, "::")
}

var labelRe = regexp.MustCompile(`^([A-Za-z_][A-Za-z0-9_.]*):\s`)

func parseClause(kind, src, file string, line int) (*Clause, error) {
	cl := &Clause{Kind: kind, File: file, Line: line}
	if m := labelRe.FindStringSubmatch(src + " "); m != nil && !strings.HasPrefix(src, "forall") && !strings.HasPrefix(src, "exists") {
		cl.Label = m[1]
		src = strings.TrimSpace(src[len(m[1])+1:])
		if len(cl.Label) >= 3 && cl.Label[0] == 'C' && cl.Label[1] >= '0' && cl.Label[1] <= '9' {
			cl.Prop = cl.Label
			if i := strings.Index(cl.Label, "."); i > 0 {
				cl.Prop = cl.Label[:i]
			}
		}
	}
	cl.Src = src
	e, err := ParseSpecExpr(src)
	if err != nil {
		return nil, err
	}
	cl.E = e
	return cl, nil
}

// parseFuncHeader parses "Name" or "pkg::Name(a T, b T) (r T, ok bool)".
func parseFuncHeader(s string) (name string, params, ptys, rnames, rtys []string, err error) {
	s = strings.TrimSpace(s)
	i := strings.Index(s, "(")
	if i < 0 {
		return strings.ReplaceAll(s, "::", "."), nil, nil, nil, nil, nil
	}
	name = strings.TrimSpace(s[:i])
	rest := s[i:]
	j := matchParen(rest)
	if j < 0 {
		return "", nil, nil, nil, nil, fmt.Errorf("unbalanced parentheses in %q", s)
	}
	params, ptys = splitParams(rest[1:j])
	res := strings.TrimSpace(rest[j+1:])
	if strings.HasPrefix(res, "(") {
		k := matchParen(res)
		rnames, rtys = splitParams(res[1:k])
	} else if res != "" {
		rnames, rtys = []string{"result"}, []string{res}
	}
	if strings.Contains(name, "::") {
		name = strings.ReplaceAll(name, "::", ".")
	}
	return
}

func matchParen(s string) int {
	d := 0
	for i, c := range s {
		switch c {
		case '(':
			d++
		case ')':
			d--
			if d == 0 {
				return i
			}
		}
	}
	return -1
}

func splitParams(s string) (names, tys []string) {
	s = strings.TrimSpace(s)
	if s == "" {
		return nil, nil
	}
	for _, p := range strings.Split(s, ",") {
		f := strings.Fields(strings.TrimSpace(p))
		switch len(f) {
		case 1:
			names = append(names, f[0])
			tys = append(tys, "")
		case 2:
			names = append(names, f[0])
			tys = append(tys, f[1])
		}
	}
	// propagate types backwards: "a, b int"
	for i := len(tys) - 2; i >= 0; i-- {
		if tys[i] == "" {
			tys[i] = tys[i+1]
		}
	}
	return
}

// parseSpecFn parses "[rec] name(a T, b T) R = body" or "name(a T) R" (uninterpreted).
func parseSpecFn(s string) (*SpecFn, error) {
	sf := &SpecFn{}
	s = strings.TrimSpace(s)
	if strings.HasPrefix(s, "rec ") {
		sf.Rec = true
		s = strings.TrimSpace(s[4:])
	}
	i := strings.Index(s, "(")
	if i < 0 {
		return nil, fmt.Errorf("spec: expected name(params)")
	}
	sf.Name = strings.TrimSpace(s[:i])
	j := matchParen(s[i:])
	if j < 0 {
		return nil, fmt.Errorf("spec: unbalanced parens")
	}
	sf.Params, sf.PTypes = splitParams(s[i+1 : i+j])
	rest := strings.TrimSpace(s[i+j+1:])
	eq := strings.Index(rest, "=")
	if eq < 0 {
		if i := strings.Index(rest, " reads "); i >= 0 {
			sf.Reads = strings.Fields(rest[i+7:])
			rest = rest[:i]
		}
		sf.RType = strings.TrimSpace(rest)
		sf.Uninter = true
		return sf, nil
	}
	sf.RType = strings.TrimSpace(rest[:eq])
	sf.Src = strings.TrimSpace(rest[eq+1:])
	e, err := ParseSpecExpr(sf.Src)
	if err != nil {
		return nil, err
	}
	sf.Body = e
	return sf, nil
}
