package main

import (
	"bytes"
	"context"
	"fmt"
	"os"
	"os/exec"
	"path/filepath"
	"strings"
	"sync"
	"time"
)

type Result struct {
	VC      *VC
	Status  string // unsat | sat | unknown | timeout | error
	Solver  string
	Seconds float64
	Output  string
	Model   map[string]string
	Tried   []string
	QF      bool
}

const prelude = `(declare-datatypes ((Str 0)) (((mkstr (sbase (Array Int Int)) (soff Int) (slen Int)))))
(declare-datatypes ((Slice 0)) (((mkslice (sarr Int) (sloff Int) (sllen Int) (slcap Int)))))
(declare-datatypes ((Iface 0)) (((mkiface (ityp Int) (iptr Int)))))
`

var streqAxioms = []string{
	"(forall ((a Str)) (! (streq a a) :pattern ((streq a a))))",
	"(forall ((a Str) (b Str)) (! (=> (streq a b) (and (streq b a) (= (slen a) (slen b)))) :pattern ((streq a b))))",
	"(forall ((a Str) (b Str) (c Str)) (! (=> (and (streq a b) (streq b c)) (streq a c)) :pattern ((streq a b) (streq b c))))",
	// extensionality, with a witness function for the first differing byte
	"(forall ((a Str) (b Str)) (! (or (streq a b) (not (= (slen a) (slen b))) (and (<= 0 (strdiff a b)) (< (strdiff a b) (slen a)) (not (= (select (sbase a) (+ (soff a) (strdiff a b))) (select (sbase b) (+ (soff b) (strdiff a b))))))) :pattern ((streq a b))))",
	"(forall ((a Str) (b Str) (k Int)) (! (=> (and (streq a b) (<= 0 k) (< k (slen a))) (= (select (sbase a) (+ (soff a) k)) (select (sbase b) (+ (soff b) k)))) :pattern ((streq a b) (select (sbase a) (+ (soff a) k)))))",
}

var strltAxioms = []string{
	"(forall ((a Str) (b Str)) (! (=> (strlt a b) (and (not (strlt b a)) (not (streq a b)))) :pattern ((strlt a b))))",
	"(forall ((a Str) (b Str) (c Str)) (! (=> (and (strlt a b) (strlt b c)) (strlt a c)) :pattern ((strlt a b) (strlt b c))))",
	"(forall ((a Str) (b Str) (c Str)) (! (=> (and (streq a b) (strlt b c)) (strlt a c)) :pattern ((streq a b) (strlt b c))))",
	"(forall ((a Str) (b Str) (c Str)) (! (=> (and (strlt a b) (streq b c)) (strlt a c)) :pattern ((strlt a b) (streq b c))))",
	"(forall ((a Str) (b Str)) (! (or (strlt a b) (streq a b) (strlt b a)) :pattern ((strlt a b))))",
	"(forall ((a Str) (b Str)) (! (or (strlt a b) (streq a b) (strlt b a)) :pattern ((streq a b))))",
}

// buildQuery assembles the SMT-LIB text of one obligation.
func (x *Exec) buildQuery(vc *VC, extra []string, getModel []string) string {
	P := x.P
	var body []string
	for _, a := range vc.Assumes {
		body = append(body, a.S)
	}
	body = append(body, vc.Goal.S)
	body = append(body, extra...)
	seen := map[string]bool{}
	var declOut, axOut []string
	work := map[string]bool{}
	for _, b := range body {
		tokensOf(b, work)
	}
	usesStreq, usesStrlt := false, false
	for len(work) > 0 {
		next := map[string]bool{}
		for tok := range work {
			if seen[tok] {
				continue
			}
			seen[tok] = true
			if tok == "streq" {
				usesStreq = true
			}
			if tok == "strlt" {
				usesStrlt = true
				usesStreq = true
			}
			if d, ok := x.decls[tok]; ok {
				declOut = append(declOut, d)
			}
			if strings.HasPrefix(tok, "lit!") {
				for s, n := range P.lits {
					if n == tok {
						declOut = append(declOut, fmt.Sprintf("(declare-const %s Str)", tok))
						ax := fmt.Sprintf("(and (= (slen %s) %d) (= (soff %s) 0)", tok, len(s), tok)
						for i := 0; i < len(s); i++ {
							ax += fmt.Sprintf(" (= (select (sbase %s) %d) %d)", tok, i, s[i])
						}
						ax += ")"
						axOut = append(axOut, ax)
					}
				}
			}
			for _, ax := range x.axioms[tok] {
				axOut = append(axOut, ax)
				tokensOf(ax, next)
			}
		}
		work = next
	}
	if usesStreq {
		declOut = append(declOut, "(declare-fun streq (Str Str) Bool)", "(declare-fun strdiff (Str Str) Int)")
		axOut = append(axOut, streqAxioms...)
	}
	if usesStrlt {
		declOut = append(declOut, "(declare-fun strlt (Str Str) Bool)")
		axOut = append(axOut, strltAxioms...)
	}
	sortStrings(declOut)
	var sb strings.Builder
	sb.WriteString(prelude)
	{
		// struct datatypes actually mentioned (with their dependencies), in declaration order
		need := map[int]bool{}
		var mark func(text string)
		mark = func(text string) {
			tk := map[string]bool{}
			tokensOf(text, tk)
			for i, d := range P.structDecl {
				if need[i] {
					continue
				}
				for _, nm := range P.structNames[i] {
					if tk[nm] {
						need[i] = true
						mark(d)
						break
					}
				}
			}
		}
		all := strings.Join(body, " ") + " " + strings.Join(declOut, " ") + " " + strings.Join(axOut, " ")
		mark(all)
		for i, d := range P.structDecl {
			if need[i] {
				sb.WriteString(d)
				sb.WriteByte('\n')
			}
		}
	}
	for _, d := range dedup(declOut) {
		sb.WriteString(d)
		sb.WriteByte('\n')
	}
	for _, a := range dedup(axOut) {
		sb.WriteString("(assert ")
		sb.WriteString(a)
		sb.WriteString(")\n")
	}
	for _, e := range extra {
		sb.WriteString("(assert ")
		sb.WriteString(e)
		sb.WriteString(")\n")
	}
	for _, a := range vc.Assumes {
		sb.WriteString("(assert ")
		sb.WriteString(a.S)
		sb.WriteString(")\n")
	}
	sb.WriteString("(assert (not ")
	sb.WriteString(vc.Goal.S)
	sb.WriteString("))\n(check-sat)\n")
	if len(getModel) > 0 {
		sb.WriteString("(get-value (")
		sb.WriteString(strings.Join(getModel, " "))
		sb.WriteString("))\n")
	}
	return sb.String()
}

func sortStrings(s []string) {
	// simple insertion sort is fine for these sizes; keep deterministic output
	for i := 1; i < len(s); i++ {
		for j := i; j > 0 && s[j] < s[j-1]; j-- {
			s[j], s[j-1] = s[j-1], s[j]
		}
	}
}

func dedup(s []string) []string {
	seen := map[string]bool{}
	var out []string
	for _, v := range s {
		if !seen[v] {
			seen[v] = true
			out = append(out, v)
		}
	}
	return out
}

type solverSpec struct {
	name string
	argv func(file string, timeoutS int) []string
	pre  string
}

var solvers = []solverSpec{
	{"z3-new", func(f string, t int) []string { return []string{"z3-new", fmt.Sprintf("-T:%d", t), f} }, ""},
	{"z3", func(f string, t int) []string { return []string{"z3", fmt.Sprintf("-T:%d", t), f} }, ""},
	{"cvc5", func(f string, t int) []string {
		return []string{"cvc5", fmt.Sprintf("--tlimit=%d", t*1000), "--full-saturate-quant", f}
	}, "(set-option :produce-models true)\n(set-logic ALL)\n"},
}

func runSolver(sp solverSpec, dir, id, query string, timeoutS int) (status, out string, secs float64) {
	return runSolverCtx(context.Background(), sp, dir, id, query, timeoutS)
}

// runSolverCtx: as runSolver; cancelling parent kills the solver (status "cancelled").
func runSolverCtx(parent context.Context, sp solverSpec, dir, id, query string, timeoutS int) (status, out string, secs float64) {
	file := filepath.Join(dir, id+"."+sp.name+".smt2")
	if err := os.WriteFile(file, []byte(sp.pre+query), 0o644); err != nil {
		return "error", err.Error(), 0
	}
	defer os.Remove(file)
	ctx, cancel := context.WithTimeout(parent, time.Duration(timeoutS+5)*time.Second)
	defer cancel()
	argv := sp.argv(file, timeoutS)
	cmd := exec.CommandContext(ctx, argv[0], argv[1:]...)
	var buf bytes.Buffer
	cmd.Stdout = &buf
	cmd.Stderr = &buf
	t0 := time.Now()
	_ = cmd.Run()
	secs = time.Since(t0).Seconds()
	out = buf.String()
	first := strings.TrimSpace(strings.SplitN(out, "\n", 2)[0])
	switch first {
	case "unsat", "sat", "unknown":
		return first, out, secs
	case "timeout":
		return "timeout", out, secs
	}
	if parent.Err() != nil {
		return "cancelled", out, secs
	}
	if ctx.Err() != nil || strings.Contains(out, "timeout") || strings.Contains(out, "interrupted") {
		return "timeout", out, secs
	}
	return "error", out, secs
}

type Runner struct {
	Dir      string
	TimeoutS int
	Thorough bool
	// CrossLight: in the thorough tier, re-check an obligation that z3-new
	// already discharged with z3 4.8.12 only (cvc5 needs tens of seconds per
	// query on the pair obligations of C10, of which there are thousands);
	// used for C10 and for any batch of more than 1500 obligations
	CrossLight bool
	mu         sync.Mutex
	n          int
}

// Discharge runs the portfolio on one VC.
func (r *Runner) Discharge(x *Exec, vc *VC) *Result {
	if vc.Goal.S == "true" {
		// the goal was reduced to true by the symbolic executor's term simplifier
		return &Result{VC: vc, Status: "unsat", Solver: "simplifier", QF: true}
	}
	r.mu.Lock()
	r.n++
	id := fmt.Sprintf("vc%05d", r.n)
	r.mu.Unlock()
	q := x.buildQuery(vc, x.lemmaFacts(vc), nil)
	res := &Result{VC: vc, QF: !strings.Contains(q, "(forall ") && !strings.Contains(q, "(exists ")}
	if len(q) > 24<<20 {
		res.Status = "error"
		res.Output = "query exceeds the 24 MiB cap"
		return res
	}
	quick := r.TimeoutS
	if quick > 4 {
		quick = 4
	}
	// stage 1: z3-new with a short timeout
	st, out, secs := runSolver(solvers[0], r.Dir, id, q, quick)
	res.Tried = append(res.Tried, fmt.Sprintf("%s:%s:%.2fs", solvers[0].name, st, secs))
	res.Seconds += secs
	if st == "unsat" || st == "sat" {
		res.Status, res.Solver, res.Output = st, solvers[0].name, out
		if !(r.Thorough && st == "unsat") {
			if dir := os.Getenv("GOVC_SAVE"); dir != "" && os.Getenv("GOVC_SAVE_ALL") != "" {
				os.MkdirAll(dir, 0o755)
				os.WriteFile(filepath.Join(dir, unsafeName.ReplaceAllString(vc.Name, "_")+".smt2"), []byte(q), 0o644)
			}
			return res
		}
	}
	// stage 2: the other solvers (and z3-new with the full timeout) in parallel
	type one struct {
		name, st, out string
		secs          float64
	}
	ch := make(chan one, 3)
	cands := []solverSpec{solvers[1], solvers[2]}
	if r.CrossLight && st == "unsat" {
		cands = []solverSpec{solvers[1]}
	}
	if st != "unsat" && st != "sat" && r.TimeoutS > quick {
		cands = append(cands, solvers[0])
	}
	// quick tier: the first definite answer wins and the other solvers are stopped;
	// thorough tier: every solver is heard (agreement is required)
	pctx, pcancel := context.WithCancel(context.Background())
	defer pcancel()
	for _, sp := range cands {
		go func(sp solverSpec) {
			s, o, t := runSolverCtx(pctx, sp, r.Dir, id, q, r.TimeoutS)
			ch <- one{sp.name, s, o, t}
		}(sp)
	}
	for range cands {
		o := <-ch
		if o.st == "cancelled" {
			continue
		}
		res.Tried = append(res.Tried, fmt.Sprintf("%s:%s:%.2fs", o.name, o.st, o.secs))
		if !r.Thorough && (o.st == "unsat" || o.st == "sat") {
			pcancel()
		}
		res.Seconds += o.secs
		if o.st == "unsat" || o.st == "sat" {
			if res.Status == "" || (res.Status != "unsat" && res.Status != "sat") {
				res.Status, res.Solver, res.Output = o.st, o.name, o.out
			} else if res.Status != o.st {
				res.Status = "error"
				res.Output = "solver disagreement: " + strings.Join(res.Tried, " ")
			}
		}
	}
	if dir := os.Getenv("GOVC_SAVE"); dir != "" && (res.Status != "unsat" || os.Getenv("GOVC_SAVE_ALL") != "") {
		os.MkdirAll(dir, 0o755)
		os.WriteFile(filepath.Join(dir, unsafeName.ReplaceAllString(vc.Name+"__"+vc.Trace, "_")+".smt2"), []byte(q), 0o644)
	}
	if res.Status == "" {
		res.Status = "unknown"
		res.Output = strings.Join(res.Tried, " ")
		nerr := 0
		for _, t := range res.Tried {
			if strings.Contains(t, ":error:") {
				nerr++
			}
		}
		if nerr == len(res.Tried) {
			res.Status = "error"
			res.Output = "all solvers rejected the query: " + firstLines(out, 3)
		}
	}
	return res
}

// lemmaFacts: proved lemmas / axioms a function's contract asks to use.
func (x *Exec) lemmaFacts(vc *VC) []string {
	var out []string
	for _, n := range vc.uses {
		if s, ok := x.lemmaText[n]; ok {
			out = append(out, s)
		}
	}
	return out
}
