package main

import (
	"fmt"
	"go/token"
	"go/types"
	"sort"
	"strings"

	"golang.org/x/tools/go/ssa"
)

func (x *Exec) doCall(st *State, in *ssa.Call) bool {
	pos := in.Pos()
	cc := in.Common()
	if cc.IsInvoke() {
		x.doInvoke(st, in)
		return true
	}
	var args []Val
	for _, a := range cc.Args {
		args = append(args, x.val(st, a))
	}
	switch f := cc.Value.(type) {
	case *ssa.Builtin:
		return x.doBuiltin(st, in, f.Name(), args)
	case *ssa.Function:
		name := qualName(f)
		if name == "" {
			name = f.String()
		}
		x.hintsBeforeCall(st, name, in)
		if x.nativeModel(st, in, name, args) {
			return true
		}
		c := x.P.Specs.Contracts[name]
		if c != nil && c.Transparent {
			return x.inlineCall(st, in, f, args)
		}
		if c == nil {
			if x.P.inModule(f) {
				// a module function without a contract (e.g. a freshly extracted
				// helper) is executed in place
				if len(f.Blocks) == 0 {
					x.unsup(pos, "call to %s, which has neither contract nor body", name)
				}
				for _, fr := range st.frames {
					if fr.fn == f {
						x.unsup(pos, "recursive call to %s, which has no contract", name)
					}
				}
				return x.inlineCall(st, in, f, args)
			}
			// external function without contract: total, no panic, no effect on
			// memory visible to the module (assumption, listed)
			x.trusted["external "+name+": assumed total, panic-free and without effect on module-visible memory; result unconstrained"] = true
			r := x.freshVal("ext", in.Type())
			x.assumeWf(st, r)
			x.setVal(st, in, r)
			st.allocs += externalAllocCost(name)
			return true
		}
		r := x.applyContract(st, name, c, f, args, pos, in.Type())
		x.setVal(st, in, r)
		return true
	case *ssa.MakeClosure:
		x.unsup(pos, "call of a closure value")
	}
	x.unsup(pos, "dynamic call")
	return false
}

// inlineCall executes the body of a transparent (private, loop-free) helper
// in place; its Return continues the caller after the call instruction.
func (x *Exec) inlineCall(st *State, in *ssa.Call, f *ssa.Function, args []Val) bool {
	if len(f.Blocks) == 0 {
		x.unsup(in.Pos(), "transparent callee %s has no body", f.Name())
	}
	x.findLoopsFor(f, x.P.Specs.Contracts[qualName(f)])
	if len(st.frames) > 8 {
		x.unsup(in.Pos(), "inlining too deep")
	}
	var collected []*State
	fr := &frame{call: in, names: st.names, fn: f, collect: &collected}
	// name large heap terms before forking so that the branches (and their
	// merge) mention them by name instead of copying them
	for _, h := range sortedKeys(st.heaps) {
		if t := st.heaps[h]; len(t.S) > 300 {
			st.heaps[h] = x.share(t)
		}
	}
	work := st.clone()
	work.frames = append(work.frames, fr)
	names := map[string]Val{}
	for i, p := range f.Params {
		a := args[i]
		a.Ty = p.Type()
		work.vals[p] = a
		names[p.Name()] = a
	}
	work.names = names
	work.prev = nil
	x.runBlock(work, f.Blocks[0])
	if len(collected) == 0 {
		return false // every path through the callee ended (panic): nothing to continue
	}
	merged := collected
	if x.noMergeAll || (x.noMergeTop && len(st.frames) == 0) {
		// relational runs: keep the paths through the top-level helpers apart
	} else if c := x.P.Specs.Contracts[qualName(f)]; c == nil || !c.NoMerge {
		merged = x.mergeGroups(collected, in, len(st.dec))
	}
	// continue the caller once per group; the last group continues in place
	for _, g := range merged[:len(merged)-1] {
		x.continueAfter(g, in)
	}
	*st = *merged[len(merged)-1]
	return true
}

func externalAllocCost(name string) int {
	switch name {
	case "strings.ToLower", "strings.ToUpper", "strings.Join", "strings.Split", "strconv.Itoa", "errors.Join", "fmt.Sprintf", "slices.Clone":
		return 1
	}
	return 0
}

func (x *Exec) assumeWf(st *State, v Val) {
	if len(v.Tup) > 0 {
		for _, e := range v.Tup {
			x.assumeWf(st, e)
		}
		return
	}
	if v.Ty != nil && !v.T.IsZero() {
		st.assume(x.wfA(st, v.T, v.Ty))
	}
}

// paramNames returns the callee's parameter names (receiver first).
func paramNames(c *Contract, f *ssa.Function, n int) []string {
	if len(c.Params) == n {
		return c.Params
	}
	var out []string
	if f != nil {
		for _, p := range f.Params {
			out = append(out, p.Name())
		}
	}
	for len(out) < n {
		out = append(out, fmt.Sprintf("arg%d", len(out)))
	}
	return out
}

func (x *Exec) calleeEnv(st *State, c *Contract, f *ssa.Function, args []Val) *Env {
	env := &Env{x: x, st: st, vars: map[string]Val{}, callee: true}
	if f != nil {
		if f.Pkg != nil {
			env.pkg = f.Pkg.Pkg
		} else if o := f.Origin(); o != nil && o.Pkg != nil {
			env.pkg = o.Pkg.Pkg
		}
	}
	names := paramNames(c, f, len(args))
	for i, a := range args {
		if f != nil && i < len(f.Params) && a.Ty == nil {
			a.Ty = f.Params[i].Type()
		}
		if f != nil && i < len(f.Params) {
			a.Ty = f.Params[i].Type()
		}
		env.vars[names[i]] = a
	}
	return env
}

func (x *Exec) bindResults(env *Env, c *Contract, f *ssa.Function, r Val, rt types.Type) {
	var rs []Val
	if len(r.Tup) > 0 {
		rs = r.Tup
	} else if tup, ok := rt.(*types.Tuple); ok && tup.Len() == 0 {
		rs = nil
	} else {
		rs = []Val{r}
	}
	var sigRes *types.Tuple
	if f != nil {
		sigRes = f.Signature.Results()
	}
	for i, v := range rs {
		if sigRes != nil && i < sigRes.Len() {
			v.Ty = sigRes.At(i).Type()
			if n := sigRes.At(i).Name(); n != "" && n != "_" {
				env.vars[n] = v
			}
		}
		if i < len(c.ResNames) {
			env.vars[c.ResNames[i]] = v
		}
		env.vars[fmt.Sprintf("result%d", i)] = v
		if len(rs) == 1 {
			env.vars["result"] = v
		}
	}
}

// pureApp builds the uninterpreted application standing for a pure Go function.
func (x *Exec) pureApp(st *State, name string, f *ssa.Function, c *Contract, args []Val, heaps map[string]Term, rt types.Type) Val {
	reads := x.P.readSet(name, f, c)
	hnames := make([]string, 0, len(reads))
	for h := range reads {
		hnames = append(hnames, h)
	}
	sort.Strings(hnames)
	var targs []Term
	var sorts []Sort
	for _, h := range hnames {
		var ht Term
		if heaps != nil {
			if t, ok := heaps[h]; ok {
				ht = t
			}
		}
		if ht.IsZero() {
			ht = x.heap(st, h, reads[h])
		}
		if x.isFrozen(h) {
			ht = x.entryHeap(st, h, reads[h])
		}
		targs = append(targs, ht)
		sorts = append(sorts, ht.Sort)
	}
	for _, a := range args {
		if a.T.IsZero() {
			panic(unsupported{"pure function " + name + " called with a cell pointer argument"})
		}
		targs = append(targs, x.share(a.T))
		sorts = append(sorts, a.T.Sort)
	}
	inst := ""
	if f != nil && len(f.TypeArgs()) > 0 {
		// generic instance: one symbol per instantiation
		for _, s := range sorts {
			inst += "!" + strings.NewReplacer("(", "", ")", "", " ", "_").Replace(string(s))
		}
	}
	mk := func(i int, t types.Type) Val {
		rs := x.P.sortOf(t)
		fn := x.declareFun(fmt.Sprintf("fn!%s%s!%d", name, inst, i), sorts, rs)
		return Val{T: x.share(App(fn, rs, targs...)), Ty: t}
	}
	if tup, ok := rt.(*types.Tuple); ok {
		if tup.Len() == 0 {
			return Val{Ty: rt}
		}
		v := Val{Ty: rt}
		for i := 0; i < tup.Len(); i++ {
			v.Tup = append(v.Tup, mk(i, tup.At(i).Type()))
		}
		return v
	}
	return mk(0, rt)
}

func (x *Exec) applyContract(st *State, name string, c *Contract, f *ssa.Function, args []Val, pos token.Pos, rt types.Type) Val {
	if c.TrustedPost {
		x.trusted["postconditions of "+name+" are assumed (body checked for safety only): "+c.TrustWhy] = true
	}
	if c.Trusted {
		why := c.TrustWhy
		if why == "" {
			why = "trusted contract"
		}
		x.trusted["trusted contract "+name+": "+why] = true
	}
	env := x.calleeEnv(st, c, f, args)
	// inline definitions
	if c.Inline {
		v := x.inlineDef(env, name, c, rt)
		st.allocs += max(c.Allocs, 0)
		return v
	}
	var frozenSt *State
	frozenBase := 0
	if len(c.Requires) > 0 && x.c != nil && len(x.c.Frozen) > 0 {
		// 'frozen' heaps (separation assumption of the function under verification):
		// the callee's precondition about configuration/request memory is
		// evaluated in the entry state of those heaps
		fs := st.clone()
		for h := range fs.heaps {
			if x.isFrozen(h) && strings.HasPrefix(h, "E!") {
				fs.heaps[h] = x.entryHeap(st, h, heapElemSort(h))
			}
		}
		frozenSt = fs
		frozenBase = len(st.pc)
		env = x.calleeEnv(fs, c, f, args)
	}
	for i, r := range c.Requires {
		t := x.trBool(env, r.E)
		lbl := r.Label
		if lbl == "" {
			lbl = fmt.Sprintf("pre%d", i)
		}
		if frozenSt != nil {
			for _, f := range frozenSt.pc[frozenBase:] {
				st.assume(f)
			}
			frozenBase = len(frozenSt.pc)
		}
		x.addVC(st, "requires", fmt.Sprintf("call/%s/%s@%s", shortName(name), lbl, x.P.pos(pos)), r.Prop, pos, t, r.Src)
	}
	if frozenSt != nil {
		env = x.calleeEnv(st, c, f, args)
	}
	if c.Allocs >= 0 {
		st.allocs += c.Allocs
	} else {
		st.allocs += externalAllocCost(name)
	}
	preHeaps := map[string]Term{}
	for k, v := range st.heaps {
		preHeaps[k] = v
	}
	preNext := x.frontier(st)
	var r Val
	if c.Pure {
		r = x.pureApp(st, name, f, c, args, nil, rt)
	} else {
		// the callee may allocate: the frontier advances by an unknown amount
		nx := x.fresh("next", SInt)
		st.assume(Le(x.frontier(st), nx))
		st.next = nx
		r = x.freshVal("ret", rt)
		// frame: havoc what the callee may assign
		for _, a := range c.Assigns {
			x.havocAssign(st, env, a)
		}
	}
	x.assumeWf(st, r)
	penv := x.calleeEnv(st, c, f, args)
	penv.oldHeaps = preHeaps
	penv.preNext = preNext
	penv.post = true
	x.bindResults(penv, c, f, r, rt)
	for _, e := range c.Ensures {
		if !x.wantsClause(e) {
			continue
		}
		if t, ok := x.tryTr(penv, e.E); ok {
			st.assume(t)
		}
	}
	return r
}

// inlineDef evaluates the defining expressions of an inline function:
// one "ensures resultK == E" per result, in order.
func (x *Exec) inlineDef(env *Env, name string, c *Contract, rt types.Type) Val {
	n := 1
	tup, isTup := rt.(*types.Tuple)
	if isTup {
		n = tup.Len()
	}
	if len(c.Ensures) != n {
		panic(unsupported{fmt.Sprintf("inline function %s needs one 'ensures resultK == E' per result", name)})
	}
	var rs []Val
	for i, e := range c.Ensures {
		b, ok := e.E.(EBin)
		if !ok || b.Op != "==" {
			panic(unsupported{"inline function " + name + ": ensures must be 'result == E'"})
		}
		v := x.tr(env, b.R)
		if isTup {
			v.Ty = tup.At(i).Type()
		} else {
			v.Ty = rt
		}
		if v.T.Sort == "Nil" {
			v.T = x.nilOf(env, v.Ty)
		}
		v.T = x.share(v.T)
		rs = append(rs, v)
	}
	if isTup {
		return Val{Tup: rs, Ty: rt}
	}
	return rs[0]
}

// tryTr translates a callee postcondition in the caller's context; a clause
// that mentions the callee's locals cannot be stated there and is skipped
// (the caller simply does not learn it).
func (x *Exec) tryTr(env *Env, e Expr) (t Term, ok bool) {
	defer func() {
		if r := recover(); r != nil {
			if u, isU := r.(unsupported); isU && strings.Contains(u.msg, "unknown identifier") {
				ok = false
				return
			}
			panic(r)
		}
	}()
	return x.trBool(env, e), true
}

// wantsClause: a callee postcondition tagged with a property is assumed only
// in functions that serve that property (keeps unrelated detail out of the context).
func (x *Exec) wantsClause(e *Clause) bool {
	if e.Prop == "" || x.c == nil {
		return true
	}
	if hasProp(x.c, e.Prop) {
		return true
	}
	// the clauses of a property assembled from others may rely on those others' callee postconditions
	for _, q := range includes[x.onlyProp] {
		if q == e.Prop {
			return true
		}
	}
	return false
}

func (x *Exec) isFrozen(h string) bool {
	if x.c == nil {
		return false
	}
	for _, p := range x.c.Frozen {
		if strings.HasPrefix(h, p) {
			return true
		}
	}
	return false
}

func (x *Exec) entryHeap(st *State, h string, elem Sort) Term {
	x.heap(st, h, elem)
	if st.entry != nil {
		if t, ok := st.entry.heaps[h]; ok {
			return t
		}
	}
	hs := heapSort(h, elem)
	n := "H0!" + h
	x.declare(n, hs)
	return Term{sym(n), hs}
}

func shortName(n string) string {
	return n
}

func (x *Exec) havocAssign(st *State, env *Env, a *Clause) {
	switch e := a.E.(type) {
	case EField:
		base := x.tr(env, e.X)
		si := x.P.structOf(base.Ty)
		if si == nil {
			panic(unsupported{"assigns: not a struct field: " + a.Src})
		}
		addr := base.T
		if _, isPtr := base.Ty.Underlying().(*types.Pointer); !isPtr {
			if base.Addr == nil {
				panic(unsupported{"assigns: no address for " + a.Src})
			}
			addr = *base.Addr
		}
		i, f := si.field(e.Name)
		if f == nil {
			panic(unsupported{"assigns: no field " + e.Name})
		}
		if isStruct(f.Ty) {
			x.havocStruct(st, f.Ty, x.subAddr(si, i, addr))
		} else {
			hv := x.fresh("hv", f.Sort)
			st.assume(x.wfA(st, hv, f.Ty))
			x.writeLoc(st, &Loc{Kind: "field", Heap: fieldHeap(si, i), Addr: addr, Sort: f.Sort}, hv)
		}
	case ECall:
		switch e.Fn {
		case "deref":
			p := x.tr(env, e.Args[0])
			et := p.Ty.Underlying().(*types.Pointer).Elem()
			if p.Loc != nil {
				x.writeLoc(st, p.Loc, x.fresh("hv", p.Loc.Sort))
			} else if isStruct(et) {
				x.havocStruct(st, et, p.T)
			} else {
				s := x.P.sortOf(et)
				x.writeLoc(st, &Loc{Kind: "cell", Heap: "C!" + string(s), Addr: p.T, Sort: s}, x.fresh("hv", s))
			}
		case "elems":
			s := x.tr(env, e.Args[0])
			et := s.Ty.Underlying().(*types.Slice).Elem()
			es := x.P.sortOf(et)
			if isStruct(et) {
				panic(unsupported{"assigns elems() of struct slices"})
			}
			hn := "E!" + string(es)
			h := x.heap(st, hn, es)
			st.heaps[hn] = Store(h, SlArr(s.T), x.fresh("hvrow", Sort(fmt.Sprintf("(Array Int %s)", es))))
		case "mapof":
			m := x.tr(env, e.Args[0])
			mp := x.heap(st, "MP!", SBool)
			mv := x.heap(st, "MV!", SSlice)
			st.heaps["MP!"] = Store(mp, m.T, x.fresh("hvrow", "(Array Str Bool)"))
			st.heaps["MV!"] = Store(mv, m.T, x.fresh("hvrow", "(Array Str Slice)"))
		case "heap":
			id, ok := e.Args[0].(EStr)
			if !ok {
				panic(unsupported{"assigns heap(\"name\")"})
			}
			if h, ok := st.heaps[id.V]; ok {
				st.heaps[id.V] = x.fresh("hv!"+id.V, h.Sort)
			}
		default:
			panic(unsupported{"assigns: unknown form " + a.Src})
		}
	default:
		panic(unsupported{"assigns: unknown form " + a.Src})
	}
}

func (x *Exec) havocStruct(st *State, t types.Type, addr Term) {
	si := x.P.structOf(t)
	for i, f := range si.Fields {
		switch {
		case isStruct(f.Ty):
			x.havocStruct(st, f.Ty, x.subAddr(si, i, addr))
		case isArray(f.Ty):
		default:
			hv := x.fresh("hv", f.Sort)
			st.assume(x.wfA(st, hv, f.Ty))
			x.writeLoc(st, &Loc{Kind: "field", Heap: fieldHeap(si, i), Addr: addr, Sort: f.Sort}, hv)
		}
	}
}

// calleeWrites: heaps a call may write (for loop havoc).
func (x *Exec) calleeWrites(in *ssa.Call, out map[string]Sort) {
	cc := in.Common()
	if cc.IsInvoke() {
		switch cc.Method.Name() {
		case "ServeHTTP":
			out["MP!"] = SBool
			out["MV!"] = SSlice
			out["E!Str"] = SStr
		}
		return
	}
	f, ok := cc.Value.(*ssa.Function)
	if !ok {
		if b, ok := cc.Value.(*ssa.Builtin); ok && (b.Name() == "append" || b.Name() == "copy") {
			if sl, ok := cc.Args[0].Type().Underlying().(*types.Slice); ok {
				if isStruct(sl.Elem()) {
					x.structHeaps(sl.Elem(), out)
				} else {
					s := x.P.sortOf(sl.Elem())
					out["E!"+string(s)] = s
				}
			}
		}
		return
	}
	name := qualName(f)
	switch name {
	case "http.Header.Add", "http.Header.Set", "maps.Copy":
		out["MP!"] = SBool
		out["MV!"] = SSlice
		out["E!Str"] = SStr
		return
	}
	c := x.P.Specs.Contracts[name]
	if c == nil || c.Pure {
		return
	}
	for _, a := range c.Assigns {
		x.assignHeaps(a, f, c, out)
	}
}

// assignHeaps gives the heap names an assigns clause touches (static).
func (x *Exec) assignHeaps(a *Clause, f *ssa.Function, c *Contract, out map[string]Sort) {
	// resolve the static type of the base expression from the callee's signature
	tyOf := func(name string) types.Type {
		if f == nil {
			return nil
		}
		for _, p := range f.Params {
			if p.Name() == name {
				return p.Type()
			}
		}
		return nil
	}
	var baseType func(e Expr) types.Type
	baseType = func(e Expr) types.Type {
		switch e := e.(type) {
		case EIdent:
			return tyOf(e.Name)
		case EField:
			bt := baseType(e.X)
			if bt == nil {
				return nil
			}
			si := x.P.structOf(bt)
			if si == nil {
				return nil
			}
			_, fi := si.field(e.Name)
			if fi == nil {
				return nil
			}
			return fi.Ty
		}
		return nil
	}
	switch e := a.E.(type) {
	case EField:
		bt := baseType(e.X)
		if bt == nil {
			panic(unsupported{"assigns: cannot type " + a.Src})
		}
		si := x.P.structOf(bt)
		i, fi := si.field(e.Name)
		if fi == nil {
			panic(unsupported{"assigns: no field in " + a.Src})
		}
		if isStruct(fi.Ty) {
			x.structHeaps(fi.Ty, out)
		} else {
			out[fieldHeap(si, i)] = fi.Sort
		}
	case ECall:
		switch e.Fn {
		case "deref":
			bt := baseType(e.Args[0])
			if bt == nil {
				panic(unsupported{"assigns: cannot type " + a.Src})
			}
			et := bt.Underlying().(*types.Pointer).Elem()
			if isStruct(et) {
				x.structHeaps(et, out)
			} else {
				s := x.P.sortOf(et)
				out["C!"+string(s)] = s
			}
		case "elems":
			bt := baseType(e.Args[0])
			if bt == nil {
				panic(unsupported{"assigns: cannot type " + a.Src})
			}
			s := x.P.sortOf(bt.Underlying().(*types.Slice).Elem())
			out["E!"+string(s)] = s
		case "mapof":
			out["MP!"] = SBool
			out["MV!"] = SSlice
		case "heap":
			if id, ok := e.Args[0].(EStr); ok {
				out[id.V] = elemSortOfHeapName(id.V)
			}
		}
	}
}

func elemSortOfHeapName(h string) Sort {
	if strings.HasPrefix(h, "F!") || h == "MP!" || h == "MV!" {
		return heapElemSort(h)
	}
	if strings.HasPrefix(h, "E!") {
		return Sort(h[2:])
	}
	if strings.HasPrefix(h, "C!") {
		return Sort(h[2:])
	}
	return SInt
}

// ---------- builtins ----------

func (x *Exec) doBuiltin(st *State, in *ssa.Call, name string, args []Val) bool {
	if name == "append" {
		return x.doAppend(st, in, args)
	}
	x.doBuiltin1(st, in, name, args)
	return true
}

func (x *Exec) doBuiltin1(st *State, in *ssa.Call, name string, args []Val) {
	pos := in.Pos()
	cc := in.Common()
	switch name {
	case "len":
		switch x.P.sortOf(cc.Args[0].Type()) {
		case SStr:
			x.setVal(st, in, Val{T: StrLen(args[0].T), Ty: in.Type()})
		case SSlice:
			x.setVal(st, in, Val{T: SlLen(args[0].T), Ty: in.Type()})
		default:
			r := x.fresh("maplen", SInt)
			st.assume(Le(Int(0), r))
			x.setVal(st, in, Val{T: r, Ty: in.Type()})
		}
	case "cap":
		x.setVal(st, in, Val{T: SlCap(args[0].T), Ty: in.Type()})
	case "min", "max":
		r := args[0].T
		for _, a := range args[1:] {
			if name == "min" {
				r = Ite(Le(r, a.T), r, a.T)
			} else {
				r = Ite(Ge(r, a.T), r, a.T)
			}
		}
		x.setVal(st, in, Val{T: r, Ty: in.Type()})
	case "copy":
		x.doCopy(st, in, args)
	default:
		x.unsup(pos, "builtin %s", name)
	}
}

// doAppend models append(s, t...) with aliasing: in place when capacity
// suffices (forks the path), otherwise a fresh backing array.
func (x *Exec) doAppend(st *State, in *ssa.Call, args []Val) bool {
	pos := in.Pos()
	s, t := args[0].T, args[1].T
	sl := in.Common().Args[0].Type().Underlying().(*types.Slice)
	et := sl.Elem()
	n, nKnown := intLit(SlLen(t))
	if x.P.sortOf(in.Common().Args[1].Type()) == SStr {
		x.unsup(pos, "append of string to []byte")
	}
	if nKnown && n == 1 && len(st.frames) == 0 && x.c != nil && len(x.c.OnAppend) > 0 && x.P.sortOf(et) == SIface {
		// obligations about every error value appended in this function
		ev := x.readLoc(st, &Loc{Kind: "elem", Heap: "E!Iface", Addr: SlArr(t), Idx: SlOff(t), Sort: SIface})
		for i, c := range x.c.OnAppend {
			env := x.envFor(st, nil)
			env.vars["e"] = Val{T: ev, Ty: et}
			g := x.trBool(env, c.E)
			lbl := c.Label
			if lbl == "" {
				lbl = fmt.Sprintf("onappend%d", i)
			}
			x.addVC(st, "ensures", fmt.Sprintf("onappend/%s@%s", lbl, x.P.pos(pos)), c.Prop, pos, g, c.Src)
		}
	}
	if isStruct(et) {
		x.appendStructs(st, in, args)
		return true
	}
	es := x.P.sortOf(et)
	hn := "E!" + string(es)
	newLen := Add(SlLen(s), SlLen(t))
	st.allocs++ // cost model: an append counts as one allocation site
	elemAt := func(st *State, sv Term, j Term) Term {
		return x.readLoc(st, &Loc{Kind: "elem", Heap: hn, Addr: SlArr(sv), Idx: Add(SlOff(sv), j), Sort: es})
	}
	fits := Le(newLen, SlCap(s))
	var inPlace *State
	// in-place branch
	if fits.S != "false" {
		s1 := st
		var s2 *State
		if fits.S != "true" {
			s2 = st.clone()
		}
		s1.assume(fits)
		if nKnown {
			for j := int64(0); j < n; j++ {
				v := elemAt(s1, t, Int(j))
				x.writeLoc(s1, &Loc{Kind: "elem", Heap: hn, Addr: SlArr(s), Idx: Add(SlOff(s), Add(SlLen(s), Int(j))), Sort: es}, v)
			}
		} else {
			h := x.heap(s1, hn, es)
			s1.heaps[hn] = Store(h, SlArr(s), x.fresh("approw", Sort(fmt.Sprintf("(Array Int %s)", es))))
		}
		r1 := MkSlice(SlArr(s), SlOff(s), newLen, SlCap(s))
		if s2 == nil {
			x.setVal(s1, in, Val{T: r1, Ty: in.Type()})
			return true
		}
		// the in-place outcome is kept aside and merged with the fresh-array
		// outcome right after this instruction
		x.setVal(s1, in, Val{T: r1, Ty: in.Type()})
		s1.dec = append(s1.dec, fits)
		inPlace = s1.clone()
		*st = *s2
		st.assume(Not(fits))
		st.dec = append(st.dec, Not(fits))
	}
	a := x.freshAlloc(st)
	cp := x.fresh("cap", SInt)
	// a slice's capacity is a Go int (a successful append never yields more)
	st.assume(And(Le(newLen, cp), Le(cp, BigInt("9223372036854775807"))))
	r := MkSlice(a, Int(0), newLen, cp)
	// contents: old elements then new ones
	if ln, ok := intLit(SlLen(s)); ok && nKnown {
		for j := int64(0); j < ln; j++ {
			x.writeLoc(st, &Loc{Kind: "elem", Heap: hn, Addr: a, Idx: Int(j), Sort: es}, elemAt(st, s, Int(j)))
		}
		for j := int64(0); j < n; j++ {
			x.writeLoc(st, &Loc{Kind: "elem", Heap: hn, Addr: a, Idx: Int(ln + j), Sort: es}, elemAt(st, t, Int(j)))
		}
	} else {
		h := x.heap(st, hn, es)
		row := x.fresh("approw", Sort(fmt.Sprintf("(Array Int %s)", es)))
		oldrow := readArr(h, SlArr(s), row.Sort)
		k := "k!q"
		kk := Term{k, SInt}
		st.assume(Term{fmt.Sprintf("(forall ((%s Int)) (! (=> (and (<= 0 %s) (< %s %s)) (= (select %s %s) (select %s (+ %s %s)))) :pattern ((select %s %s))))",
			k, k, k, SlLen(s).S, row.S, k, oldrow.S, SlOff(s).S, k, row.S, k), SBool})
		_ = kk
		st.heaps[hn] = Store(h, a, row)
		if nKnown {
			for j := int64(0); j < n; j++ {
				x.writeLoc(st, &Loc{Kind: "elem", Heap: hn, Addr: a, Idx: Add(SlLen(s), Int(j)), Sort: es}, elemAt(st, t, Int(j)))
			}
		}
	}
	x.setVal(st, in, Val{T: r, Ty: in.Type()})
	if inPlace != nil {
		fresh := st.clone()
		*st = *x.mergeStates([]*State{inPlace, fresh}, in, len(fresh.dec)-1)
	}
	return true
}

// continueAfter runs the remainder of the block after instruction in on st.
func (x *Exec) continueAfter(st *State, in ssa.Instruction) {
	b := in.Block()
	found := false
	for _, i2 := range b.Instrs {
		if found {
			if !x.step(st, i2) {
				return
			}
			continue
		}
		if i2 == in {
			found = true
		}
	}
}

func (x *Exec) appendStructs(st *State, in *ssa.Call, args []Val) {
	x.unsup(in.Pos(), "append on slices of structs")
}

// doCopy models copy(dst, src) for slices of scalars, strings or slices
// (memmove semantics: the source is read before anything is written).
func (x *Exec) doCopy(st *State, in *ssa.Call, args []Val) {
	dt, ok1 := in.Common().Args[0].Type().Underlying().(*types.Slice)
	_, ok2 := in.Common().Args[1].Type().Underlying().(*types.Slice)
	if !ok1 || !ok2 || isStruct(dt.Elem()) || isArray(dt.Elem()) {
		x.unsup(in.Pos(), "copy builtin on %s", in.Common().Args[0].Type())
	}
	es := x.P.sortOf(dt.Elem())
	hn := "E!" + string(es)
	d, s := args[0].T, args[1].T
	n := x.fresh("copyn", SInt)
	st.assume(Eq(n, Ite(Le(SlLen(d), SlLen(s)), SlLen(d), SlLen(s))))
	h := x.heap(st, hn, es)
	rowSort := Sort(fmt.Sprintf("(Array Int %s)", es))
	oldD := readArr(h, SlArr(d), rowSort)
	oldS := readArr(h, SlArr(s), rowSort)
	row := x.fresh("cpyrow", rowSort)
	k := "k!c"
	inRange := fmt.Sprintf("(and (<= %s %s) (< %s (+ %s %s)))", SlOff(d).S, k, k, SlOff(d).S, n.S)
	st.assume(Term{fmt.Sprintf("(forall ((%s Int)) (! (=> %s (= (select %s %s) (select %s (+ (- %s %s) %s)))) :pattern ((select %s %s))))",
		k, inRange, row.S, k, oldS.S, k, SlOff(d).S, SlOff(s).S, row.S, k), SBool})
	st.assume(Term{fmt.Sprintf("(forall ((%s Int)) (! (=> (not %s) (= (select %s %s) (select %s %s))) :pattern ((select %s %s))))",
		k, inRange, row.S, k, oldD.S, k, row.S, k), SBool})
	st.heaps[hn] = Store(h, SlArr(d), row)
	x.setVal(st, in, Val{T: n, Ty: in.Type()})
}

// ---------- interface invocations (trusted net/http model) ----------

func (x *Exec) doInvoke(st *State, in *ssa.Call) {
	cc := in.Common()
	recv := x.val(st, cc.Value)
	var args []Val
	for _, a := range cc.Args {
		args = append(args, x.val(st, a))
	}
	m := cc.Method.Name()
	it := types.TypeString(cc.Value.Type(), func(p *types.Package) string { return p.Name() })
	x.trusted["interface model "+it+"."+m+" (DESIGN §2.2)"] = true
	switch it + "." + m {
	case "http.ResponseWriter.Header":
		f := x.declareFun("whdr", []Sort{SIface}, SInt)
		h := App(f, SInt, recv.T)
		x.declare("brk!", SInt)
		st.assume(And(Ne(h, Int(0)), Lt(h, Term{"brk!", SInt})))
		x.frontier(st)
		st.events = append(st.events, Event{"Header", []Val{recv}})
		x.setVal(st, in, Val{T: h, Ty: in.Type()})
	case "http.ResponseWriter.WriteHeader":
		st.events = append(st.events, Event{"WriteHeader", append([]Val{recv}, args...)})
		x.setVal(st, in, Val{Ty: in.Type()})
	case "http.Handler.ServeHTTP":
		st.events = append(st.events, Event{"ServeHTTP", append([]Val{recv}, args...)})
		if st.atServe == nil {
			st.atServe = copyHeaps(st.heaps)
		}
		// the wrapped handler may do anything to the response headers and may
		// mutate in place every slice it can reach
		for _, hn := range []string{"MP!", "MV!", "E!Str"} {
			if h, ok := st.heaps[hn]; ok {
				st.heaps[hn] = x.fresh("serve!"+hn, h.Sort)
			}
		}
		x.setVal(st, in, Val{Ty: in.Type()})
	default:
		if it == "http.ResponseWriter" {
			// any other method of the writer (Write, Flush, ...) is recorded as an event
			st.events = append(st.events, Event{m, append([]Val{recv}, args...)})
			r := x.freshVal("wret", in.Type())
			x.assumeWf(st, r)
			x.setVal(st, in, r)
			return
		}
		x.unsup(in.Pos(), "interface method call %s.%s", it, m)
	}
}

// nativeModel: trusted models of a few net/http and stdlib functions whose
// effect on header maps is easier to state natively than in the contract
// language. Returns true when handled.
func (x *Exec) nativeModel(st *State, in *ssa.Call, name string, args []Val) bool {
	pos := in.Pos()
	switch name {
	case "http.Header.Add", "http.Header.Set":
		x.trusted["native model "+name+" (net/http): appends/sets a freshly allocated value slice for the key"] = true
		h := args[0].T
		k := x.mapKey(st, args[1], pos)
		v := args[2].T
		if !strings.HasPrefix(h.S, "alloc!") {
			x.addVC(st, "safety", fmt.Sprintf("safety/nil-map-write@%s", x.P.pos(pos)), "", pos, Ne(h, Int(0)), "Header.Add/Set on nil map")
		}
		old, present := x.mapRead(st, h, k)
		r := x.fresh("hval", SSlice)
		st.assume(x.wf(r, types.NewSlice(types.Typ[types.String])))
		hn := "E!Str"
		es := SStr
		eh := x.heap(st, hn, es)
		row := readArr(eh, SlArr(r), "(Array Int Str)")
		if name == "http.Header.Set" {
			st.assume(Eq(SlLen(r), Int(1)))
			st.assume(Eq(readArr(row, SlOff(r), SStr), v))
		} else {
			// the value already stored under the key is a Go slice value
			st.assume(x.wf(old, types.NewSlice(types.Typ[types.String])))
			oldLen := Ite(present, SlLen(old), Int(0))
			st.assume(Eq(SlLen(r), Add(oldLen, Int(1))))
			st.assume(Eq(Select(row, Add(SlOff(r), oldLen), SStr), v))
			oldrow := readArr(eh, SlArr(old), "(Array Int Str)")
			// elements before the appended one are those of the old value (absolute index on the new array)
			k2 := "k!q"
			st.assume(Term{fmt.Sprintf("(forall ((%s Int)) (! (=> (and (<= %s %s) (< %s (+ %s %s))) (= (select %s %s) (select %s (+ (- %s %s) %s)))) :pattern ((select %s %s))))",
				k2, SlOff(r).S, k2, k2, SlOff(r).S, oldLen.S, row.S, k2, oldrow.S, k2, SlOff(r).S, SlOff(old).S, row.S, k2), SBool})
		}
		st.assume(Ne(SlArr(r), Int(0)))
		mp := x.heap(st, "MP!", SBool)
		mv := x.heap(st, "MV!", SSlice)
		pin := readArr(mp, h, "(Array Str Bool)")
		vin := readArr(mv, h, "(Array Str Slice)")
		st.heaps["MP!"] = Store(mp, h, Store(pin, k, True))
		st.heaps["MV!"] = Store(mv, h, Store(vin, k, r))
		st.allocs += 2
		x.setVal(st, in, Val{Ty: in.Type()})
		return true
	case "maps.Copy":
		x.trusted["native model maps.Copy: dst[k] = src[k] for every key of src, other keys unchanged"] = true
		dst, src := args[0].T, args[1].T
		if !strings.HasPrefix(dst.S, "alloc!") {
			x.addVC(st, "safety", fmt.Sprintf("safety/nil-map-write@%s", x.P.pos(pos)), "", pos, Or(Ne(dst, Int(0)), Eq(src, Int(0))), "maps.Copy into nil map")
		}
		mp := x.heap(st, "MP!", SBool)
		mv := x.heap(st, "MV!", SSlice)
		dp := readArr(mp, dst, "(Array Str Bool)")
		dv := readArr(mv, dst, "(Array Str Slice)")
		sp := readArr(mp, src, "(Array Str Bool)")
		sv := readArr(mv, src, "(Array Str Slice)")
		np := x.fresh("cprow", "(Array Str Bool)")
		nv := x.fresh("cprow", "(Array Str Slice)")
		st.assume(Term{fmt.Sprintf("(forall ((k!s Str)) (! (= (select %s k!s) (or (select %s k!s) (select %s k!s))) :pattern ((select %s k!s))))", np.S, dp.S, sp.S, np.S), SBool})
		st.assume(Term{fmt.Sprintf("(forall ((k!s Str)) (! (= (select %s k!s) (ite (select %s k!s) (select %s k!s) (select %s k!s))) :pattern ((select %s k!s))))", nv.S, sp.S, sv.S, dv.S, nv.S), SBool})
		st.heaps["MP!"] = Store(mp, dst, np)
		st.heaps["MV!"] = Store(mv, dst, nv)
		st.allocs += 1
		x.setVal(st, in, Val{Ty: in.Type()})
		return true
	case "sync.RWMutex.RLock", "sync.RWMutex.RUnlock", "sync.RWMutex.Lock", "sync.RWMutex.Unlock":
		x.trusted["sync.RWMutex: lock operations are events for the guarded_by discipline only (C07); mutual exclusion assumed"] = true
		st.events = append(st.events, Event{strings.TrimPrefix(name, "sync.RWMutex."), args})
		x.setVal(st, in, Val{Ty: in.Type()})
		return true
	}
	return false
}

// hintsBeforeCall: intermediate assertions "hint before <callee>: E", proved
// in the state right before the call and then available.
func (x *Exec) hintsBeforeCall(st *State, callee string, in *ssa.Call) {
	if x.c == nil || len(st.frames) > 0 {
		return
	}
	for i, h := range x.c.Hints {
		if !strings.HasPrefix(h.Label, "before:") {
			continue
		}
		want := strings.TrimPrefix(h.Label, "before:")
		if callee != want && !strings.HasPrefix(callee, want+"[") && !strings.HasSuffix(callee, "."+want) {
			continue
		}
		env := x.envFor(st, nil)
		t := x.trBool(env, h.E)
		x.addVC(st, "invariant", fmt.Sprintf("hint/before_%s#%d", want, i), h.Prop, in.Pos(), t, h.Src)
		st.assume(t)
	}
}
