package main

// State merging: the paths through an inlined helper (and the two outcomes
// of an append) are joined into one symbolic state guarded by fresh boolean
// selectors, so that path counts stay linear in the length of the code.

import (
	"fmt"
	"sort"
	"strings"

	"golang.org/x/tools/go/ssa"
)

func eventSig(evs []Event) string {
	var sb strings.Builder
	for _, e := range evs {
		sb.WriteString(e.Kind)
		sb.WriteByte(fmt.Sprint(len(e.Args))[0])
		sb.WriteByte(';')
	}
	return sb.String()
}

// mergeGroups partitions states by their event signature and merges each group.
func (x *Exec) mergeGroups(outs []*State, key ssa.Value, baseDec int) []*State {
	groups := map[string][]*State{}
	var order []string
	for _, s := range outs {
		sig := eventSig(s.events) + fmt.Sprint(s.atServe != nil)
		if _, ok := groups[sig]; !ok {
			order = append(order, sig)
		}
		groups[sig] = append(groups[sig], s)
	}
	var res []*State
	for _, sig := range order {
		res = append(res, x.mergeStates(groups[sig], key, baseDec))
	}
	return res
}

func ite3(g Term, a, b Term) Term { return Ite(g, a, b) }

func (x *Exec) mergeVal(guards []Term, vs []Val) Val {
	if len(vs[0].Tup) > 0 {
		out := vs[0]
		out.Tup = make([]Val, len(vs[0].Tup))
		for i := range vs[0].Tup {
			col := make([]Val, len(vs))
			for j := range vs {
				col[j] = vs[j].Tup[i]
			}
			out.Tup[i] = x.mergeVal(guards, col)
		}
		return out
	}
	same := true
	for _, v := range vs[1:] {
		if v.T.S != vs[0].T.S || (v.Loc == nil) != (vs[0].Loc == nil) {
			same = false
		}
	}
	if same {
		return vs[0]
	}
	for _, v := range vs {
		if v.Loc != nil {
			panic(unsupported{"cannot merge states in which a cell pointer differs"})
		}
	}
	if vs[0].T.IsZero() {
		return vs[0]
	}
	t := vs[len(vs)-1].T
	for i := len(vs) - 2; i >= 0; i-- {
		t = Ite(guards[i], vs[i].T, t)
	}
	out := vs[0]
	out.T = x.share(t)
	out.Addr = nil
	return out
}

func (x *Exec) mergeStates(outs []*State, key ssa.Value, baseDec int) *State {
	if len(outs) == 1 {
		return outs[0]
	}
	for _, s := range outs {
		if baseDec > len(s.dec) {
			baseDec = len(s.dec)
		}
	}
	// common prefix of the path conditions
	n := len(outs[0].pc)
	for _, s := range outs[1:] {
		k := 0
		for k < n && k < len(s.pc) && s.pc[k].S == outs[0].pc[k].S {
			k++
		}
		n = k
	}
	m := outs[0].clone()
	m.pc = append([]Term(nil), outs[0].pc[:n]...)
	m.pcSet = nil
	// a branch is selected by the decisions taken since the fork: explicit
	// formulas over the inputs (no fresh selector), so that two symbolic runs
	// of the same code select corresponding branches by congruence
	guards := make([]Term, len(outs))
	for i, s := range outs {
		guards[i] = x.share(And(s.dec[baseDec:]...))
	}
	m.dec = append([]Term(nil), outs[0].dec[:baseDec]...)
	// exactly one guard holds
	m.assume(Or(guards...))
	for i := range guards {
		for j := i + 1; j < len(guards); j++ {
			m.assume(Not(And(guards[i], guards[j])))
		}
	}
	// facts that hold on every branch are asserted once, unguarded
	cnt := map[string]int{}
	for _, s := range outs {
		seen := map[string]bool{}
		for _, f := range s.pc[n:] {
			if !seen[f.S] {
				seen[f.S] = true
				cnt[f.S]++
			}
		}
	}
	for _, f := range outs[0].pc[n:] {
		if cnt[f.S] == len(outs) {
			m.assume(f)
		}
	}
	for i, s := range outs {
		var fs []Term
		for _, f := range s.pc[n:] {
			if cnt[f.S] != len(outs) {
				fs = append(fs, f)
			}
		}
		m.assume(Implies(guards[i], And(fs...)))
	}
	// heaps
	names := map[string]bool{}
	for _, s := range outs {
		for h := range s.heaps {
			names[h] = true
		}
	}
	hn := make([]string, 0, len(names))
	for h := range names {
		hn = append(hn, h)
	}
	sort.Strings(hn)
	for _, h := range hn {
		ts := make([]Term, len(outs))
		same := true
		for i, s := range outs {
			t, ok := s.heaps[h]
			if !ok {
				t = x.heap(s, h, heapElemSort(h))
			}
			ts[i] = t
			if t.S != ts[0].S {
				same = false
			}
		}
		if same {
			m.heaps[h] = ts[0]
			continue
		}
		t := ts[len(ts)-1]
		for i := len(ts) - 2; i >= 0; i-- {
			t = Ite(guards[i], ts[i], t)
		}
		m.heaps[h] = x.share(t)
	}
	// the distinguished value (call result / append result)
	if key != nil {
		vs := make([]Val, len(outs))
		for i, s := range outs {
			vs[i] = s.vals[key]
		}
		m.vals[key] = x.mergeVal(guards, vs)
	}
	// events: same kinds, arguments merged
	for k := range m.events {
		for a := range m.events[k].Args {
			vs := make([]Val, len(outs))
			for i, s := range outs {
				vs[i] = s.events[k].Args[a]
			}
			m.events[k].Args[a] = x.mergeVal(guards, vs)
		}
	}
	if m.atServe != nil {
		for h := range m.atServe {
			ts := make([]Term, len(outs))
			same := true
			for i, s := range outs {
				ts[i] = s.atServe[h]
				if ts[i].S != ts[0].S {
					same = false
				}
			}
			if !same {
				t := ts[len(ts)-1]
				for i := len(ts) - 2; i >= 0; i-- {
					if ts[i].IsZero() || t.IsZero() {
						continue
					}
					t = Ite(guards[i], ts[i], t)
				}
				m.atServe[h] = t
			}
		}
	}
	for _, s := range outs {
		if s.allocs > m.allocs {
			m.allocs = s.allocs
		}
	}
	return m
}
