package main

// SMT terms are kept as S-expression strings with a sort tag. A few
// smart constructors fold constants so that path conditions stay readable.

import (
	"fmt"
	"sort"
	"strconv"
	"strings"
)

type Sort string

const (
	SInt   Sort = "Int"
	SBool  Sort = "Bool"
	SStr   Sort = "Str"
	SSlice Sort = "Slice"
	SIface Sort = "Iface"
)

type Term struct {
	S    string
	Sort Sort
}

var (
	True  = Term{"true", SBool}
	False = Term{"false", SBool}
)

func (t Term) String() string { return t.S }
func (t Term) IsZero() bool   { return t.S == "" }

func Int(n int64) Term {
	if n < 0 {
		return Term{fmt.Sprintf("(- %d)", -n), SInt}
	}
	return Term{strconv.FormatInt(n, 10), SInt}
}

func BigInt(s string) Term { return Term{s, SInt} }

func intLit(t Term) (int64, bool) {
	if t.Sort != SInt {
		return 0, false
	}
	if n, err := strconv.ParseInt(t.S, 10, 64); err == nil {
		return n, true
	}
	if strings.HasPrefix(t.S, "(- ") && strings.HasSuffix(t.S, ")") {
		if n, err := strconv.ParseInt(t.S[3:len(t.S)-1], 10, 64); err == nil {
			return -n, true
		}
	}
	return 0, false
}

func Bool(b bool) Term {
	if b {
		return True
	}
	return False
}

func App(op string, sort Sort, args ...Term) Term {
	if len(args) == 0 {
		return Term{op, sort}
	}
	var sb strings.Builder
	sb.WriteByte('(')
	sb.WriteString(op)
	for _, a := range args {
		sb.WriteByte(' ')
		sb.WriteString(a.S)
	}
	sb.WriteByte(')')
	return Term{sb.String(), sort}
}

func Not(a Term) Term {
	switch a.S {
	case "true":
		return False
	case "false":
		return True
	}
	if strings.HasPrefix(a.S, "(not ") {
		return Term{a.S[5 : len(a.S)-1], SBool}
	}
	return App("not", SBool, a)
}

func And(as ...Term) Term {
	var out []Term
	for _, a := range as {
		if a.S == "true" {
			continue
		}
		if a.S == "false" {
			return False
		}
		out = append(out, a)
	}
	switch len(out) {
	case 0:
		return True
	case 1:
		return out[0]
	}
	return App("and", SBool, out...)
}

func Or(as ...Term) Term {
	var out []Term
	for _, a := range as {
		if a.S == "false" {
			continue
		}
		if a.S == "true" {
			return True
		}
		out = append(out, a)
	}
	switch len(out) {
	case 0:
		return False
	case 1:
		return out[0]
	}
	return App("or", SBool, out...)
}

func Implies(a, b Term) Term {
	if a.S == "true" {
		return b
	}
	if a.S == "false" || b.S == "true" {
		return True
	}
	return App("=>", SBool, a, b)
}

func Eq(a, b Term) Term {
	if a.S == b.S {
		return True
	}
	if x, ok := intLit(a); ok {
		if y, ok := intLit(b); ok {
			return Bool(x == y)
		}
	}
	if a.Sort == SBool {
		if b.S == "true" {
			return a
		}
		if b.S == "false" {
			return Not(a)
		}
		if a.S == "true" {
			return b
		}
		if a.S == "false" {
			return Not(b)
		}
	}
	return App("=", SBool, a, b)
}

func Ne(a, b Term) Term { return Not(Eq(a, b)) }

func Ite(c, a, b Term) Term {
	if c.S == "true" {
		return a
	}
	if c.S == "false" {
		return b
	}
	if a.S == b.S {
		return a
	}
	return App("ite", a.Sort, c, a, b)
}

func Add(a, b Term) Term {
	x, xok := intLit(a)
	y, yok := intLit(b)
	if xok && yok {
		return Int(x + y)
	}
	if xok && x == 0 {
		return b
	}
	if yok && y == 0 {
		return a
	}
	// off + (t - off) = t
	if args, ok := splitApp(b.S, "-"); ok && len(args) == 2 && args[1] == a.S {
		return Term{args[0], SInt}
	}
	if args, ok := splitApp(a.S, "-"); ok && len(args) == 2 && args[1] == b.S {
		return Term{args[0], SInt}
	}
	return App("+", SInt, a, b)
}

func Sub(a, b Term) Term {
	x, xok := intLit(a)
	y, yok := intLit(b)
	if xok && yok {
		return Int(x - y)
	}
	if yok && y == 0 {
		return a
	}
	if a.S == b.S {
		return Int(0)
	}
	return App("-", SInt, a, b)
}

func Mul(a, b Term) Term {
	x, xok := intLit(a)
	y, yok := intLit(b)
	if xok && yok {
		return Int(x * y)
	}
	return App("*", SInt, a, b)
}

func Le(a, b Term) Term {
	if x, ok := intLit(a); ok {
		if y, ok := intLit(b); ok {
			return Bool(x <= y)
		}
	}
	return App("<=", SBool, a, b)
}
func Lt(a, b Term) Term {
	if x, ok := intLit(a); ok {
		if y, ok := intLit(b); ok {
			return Bool(x < y)
		}
	}
	return App("<", SBool, a, b)
}
func Ge(a, b Term) Term { return Le(b, a) }
func Gt(a, b Term) Term { return Lt(b, a) }

func Select(arr, idx Term, sort Sort) Term { return App("select", sort, arr, idx) }
func Store(arr, idx, v Term) Term          { return App("store", arr.Sort, arr, idx, v) }

// ---- strings ----

func StrBase(s Term) Term { return projApp("sbase", "(Array Int Int)", "mkstr", 0, s) }
func StrOff(s Term) Term  { return projApp("soff", SInt, "mkstr", 1, s) }
func StrLen(s Term) Term  { return projApp("slen", SInt, "mkstr", 2, s) }
func MkStr(base, off, ln Term) Term {
	return App("mkstr", SStr, base, off, ln)
}
func StrByte(s, i Term) Term {
	return Select(StrBase(s), Add(StrOff(s), i), SInt)
}
func StrSlice(s, lo, hi Term) Term {
	return MkStr(StrBase(s), Add(StrOff(s), lo), Sub(hi, lo))
}

// ---- slices ----

func SlArr(s Term) Term { return projApp("sarr", SInt, "mkslice", 0, s) }
func SlOff(s Term) Term { return projApp("sloff", SInt, "mkslice", 1, s) }
func SlLen(s Term) Term { return projApp("sllen", SInt, "mkslice", 2, s) }
func SlCap(s Term) Term { return projApp("slcap", SInt, "mkslice", 3, s) }
func MkSlice(arr, off, ln, cp Term) Term {
	return App("mkslice", SSlice, arr, off, ln, cp)
}

var NilSlice = MkSlice(Int(0), Int(0), Int(0), Int(0))

func IfTyp(i Term) Term { return projApp("ityp", SInt, "mkiface", 0, i) }
func IfPtr(i Term) Term { return projApp("iptr", SInt, "mkiface", 1, i) }
func MkIface(t, p Term) Term {
	return App("mkiface", SIface, t, p)
}

var NilIface = MkIface(Int(0), Int(0))

// projApp applies accessor acc to t, folding acc(ctor(a0..an)) to a_i.
func projApp(acc string, sort Sort, ctor string, i int, t Term) Term {
	if args, ok := splitApp(t.S, ctor); ok && i < len(args) {
		return Term{args[i], sort}
	}
	return App(acc, sort, t)
}

// splitApp returns the top-level arguments of "(op a b c)" if its head is op.
func splitApp(s, op string) ([]string, bool) {
	if !strings.HasPrefix(s, "("+op+" ") || !strings.HasSuffix(s, ")") {
		return nil, false
	}
	body := s[len(op)+2 : len(s)-1]
	var args []string
	depth := 0
	start := 0
	inBar := false
	for i := 0; i < len(body); i++ {
		c := body[i]
		if inBar {
			if c == '|' {
				inBar = false
			}
			continue
		}
		switch c {
		case '|':
			inBar = true
		case '(':
			depth++
		case ')':
			depth--
			if depth < 0 {
				return nil, false
			}
		case ' ':
			if depth == 0 {
				if i > start {
					args = append(args, body[start:i])
				}
				start = i + 1
			}
		}
	}
	if depth != 0 {
		return nil, false
	}
	if start < len(body) {
		args = append(args, body[start:])
	}
	return args, true
}

// substitute replaces whole-token occurrences of names by terms.
func substTerm(t Term, m map[string]string) Term {
	if len(m) == 0 {
		return t
	}
	var sb strings.Builder
	s := t.S
	i := 0
	for i < len(s) {
		c := s[i]
		if c == '(' || c == ')' || c == ' ' {
			sb.WriteByte(c)
			i++
			continue
		}
		j := i
		if c == '|' {
			j = i + 1
			for j < len(s) && s[j] != '|' {
				j++
			}
			j++
		} else {
			for j < len(s) && s[j] != '(' && s[j] != ')' && s[j] != ' ' {
				j++
			}
		}
		tok := s[i:j]
		if r, ok := m[tok]; ok {
			sb.WriteString(r)
		} else {
			sb.WriteString(tok)
		}
		i = j
	}
	return Term{sb.String(), t.Sort}
}

// tokens returns the set of atom tokens of an S-expression.
func tokensOf(s string, into map[string]bool) {
	i := 0
	for i < len(s) {
		c := s[i]
		if c == '(' || c == ')' || c == ' ' || c == '\n' || c == '\t' {
			i++
			continue
		}
		j := i
		if c == '|' {
			j = i + 1
			for j < len(s) && s[j] != '|' {
				j++
			}
			j++
		} else {
			for j < len(s) && s[j] != '(' && s[j] != ')' && s[j] != ' ' && s[j] != '\n' && s[j] != '\t' {
				j++
			}
		}
		into[s[i:j]] = true
		i = j
	}
}

func sortedKeys[V any](m map[string]V) []string {
	ks := make([]string, 0, len(m))
	for k := range m {
		ks = append(ks, k)
	}
	sort.Strings(ks)
	return ks
}

func sym(name string) string {
	// SMT-LIB simple symbols may not contain some characters; quote when needed.
	for _, c := range name {
		if !(c >= 'a' && c <= 'z' || c >= 'A' && c <= 'Z' || c >= '0' && c <= '9' || strings.ContainsRune("_.!$@%^&*~+-/<>=?", c)) {
			return "|" + name + "|"
		}
	}
	return name
}
