package main

// Ownership / lock-discipline obligations decided on the SSA control-flow
// graph (no SMT): C07 (guarded_by, single snapshot, immutability after
// publication) and C12 (no aliasing between caller-owned, configuration-owned
// and package-level slices and what handlers can reach).

import (
	"fmt"
	"go/token"
	"go/types"
	"sort"
	"strings"

	"golang.org/x/tools/go/ssa"
)

func (ck *Check) flowAdd(name string, ok bool, detail string) {
	d := map[string]any{"name": name, "ok": ok, "kind": "ownership / lock-discipline obligation decided on the SSA control-flow graph"}
	if detail != "" {
		d["detail"] = detail
	}
	if !ok {
		d["obligation"] = name
		d["solver_status"] = "n/a (flow obligation)"
	}
	ck.flowObl = append(ck.flowObl, d)
}

func (ck *Check) corsFuncs() []*ssa.Function {
	var out []*ssa.Function
	for n, f := range ck.P.Funcs {
		if strings.HasPrefix(n, "cors.") && len(f.Blocks) > 0 && ck.P.inModule(f) {
			out = append(out, f)
		}
	}
	sort.Slice(out, func(i, j int) bool { return ck.P.FnName[out[i]] < ck.P.FnName[out[j]] })
	return out
}

func (ck *Check) moduleFuncs() []*ssa.Function {
	var out []*ssa.Function
	for _, f := range ck.P.Funcs {
		if len(f.Blocks) > 0 && ck.P.inModule(f) {
			out = append(out, f)
		}
	}
	sort.Slice(out, func(i, j int) bool { return ck.P.FnName[out[i]] < ck.P.FnName[out[j]] })
	return out
}

func isMiddlewarePtr(t types.Type) bool {
	p, ok := t.Underlying().(*types.Pointer)
	if !ok {
		return false
	}
	n, ok := p.Elem().(*types.Named)
	return ok && n.Obj().Name() == "Middleware" && n.Obj().Pkg() != nil && n.Obj().Pkg().Name() == "cors"
}

func isICfgPtr(t types.Type) bool {
	p, ok := t.Underlying().(*types.Pointer)
	if !ok {
		return false
	}
	n, ok := p.Elem().(*types.Named)
	return ok && n.Obj().Name() == "internalConfig"
}

// guardedAccess describes a FieldAddr of Middleware.icfg / Middleware.debug.
func guardedField(fa *ssa.FieldAddr) (string, bool) {
	if !isMiddlewarePtr(fa.X.Type()) {
		return "", false
	}
	st := fa.X.Type().Underlying().(*types.Pointer).Elem().Underlying().(*types.Struct)
	name := st.Field(fa.Field).Name()
	if name == "icfg" || name == "debug" {
		return name, true
	}
	return "", false
}

func lockOp(c *ssa.Call) string {
	f, ok := c.Common().Value.(*ssa.Function)
	if !ok {
		return ""
	}
	switch qualName(f) {
	case "sync.RWMutex.RLock":
		return "RLock"
	case "sync.RWMutex.RUnlock":
		return "RUnlock"
	case "sync.RWMutex.Lock":
		return "Lock"
	case "sync.RWMutex.Unlock":
		return "Unlock"
	}
	return ""
}

// lockStates computes, for every instruction, the weakest lock state held on
// any path reaching it: 0 none, 1 read, 2 write.
func lockStates(f *ssa.Function) map[ssa.Instruction]int {
	in := map[*ssa.BasicBlock]int{}
	for _, b := range f.Blocks {
		in[b] = 3 // top
	}
	in[f.Blocks[0]] = 0
	res := map[ssa.Instruction]int{}
	changed := true
	for changed {
		changed = false
		for _, b := range f.Blocks {
			s := in[b]
			if s == 3 {
				continue
			}
			for _, ins := range b.Instrs {
				res[ins] = s
				if c, ok := ins.(*ssa.Call); ok {
					switch lockOp(c) {
					case "RLock":
						s = 1
					case "Lock":
						s = 2
					case "RUnlock", "Unlock":
						s = 0
					}
				}
			}
			for _, succ := range b.Succs {
				n := in[succ]
				m := s
				if n != 3 && n < m {
					m = n
				}
				if m != n {
					in[succ] = m
					changed = true
				}
			}
		}
	}
	return res
}

func rootOf(v ssa.Value) ssa.Value {
	for {
		switch a := v.(type) {
		case *ssa.FieldAddr:
			v = a.X
		case *ssa.IndexAddr:
			v = a.X
		case *ssa.ChangeType:
			v = a.X
		case *ssa.UnOp:
			if a.Op == token.MUL {
				// load of a pointer held in a captured variable / local cell
				if _, ok := a.X.(*ssa.FreeVar); ok {
					return a.X
				}
				if _, ok := a.X.(*ssa.Alloc); ok {
					v = a.X
					continue
				}
			}
			return v
		default:
			return v
		}
	}
}

func (ck *Check) checkC07() {
	P := ck.P
	whitelist := map[string]bool{"cors.NewMiddleware": true, "cors.Middleware.Reconfigure": true, "cors.Middleware.SetDebug": true,
		"cors.Middleware.Config": true, "cors.Middleware.Wrap$1": true}
	for _, f := range ck.corsFuncs() {
		name := P.FnName[f]
		states := lockStates(f)
		loads := map[string]int{}
		var storeRegions []ssa.Instruction
		nLock := 0
		for _, b := range f.Blocks {
			for _, ins := range b.Instrs {
				if c, ok := ins.(*ssa.Call); ok && (lockOp(c) == "Lock" || lockOp(c) == "RLock") {
					nLock++
				}
				var fa *ssa.FieldAddr
				isStore := false
				switch i := ins.(type) {
				case *ssa.UnOp:
					if i.Op == token.MUL {
						fa, _ = i.X.(*ssa.FieldAddr)
					}
				case *ssa.Store:
					fa, _ = i.Addr.(*ssa.FieldAddr)
					isStore = true
				}
				if fa == nil {
					continue
				}
				field, ok := guardedField(fa)
				if !ok {
					continue
				}
				pos := P.pos(ins.Pos())
				if !whitelist[name] {
					ck.flowAdd(fmt.Sprintf("C07/guarded_by/%s/only_lifecycle_functions_access_%s@%s", name, field, pos), false,
						"guarded field Middleware."+field+" is accessed outside NewMiddleware/Reconfigure/SetDebug/Config/the handler closure: a request could observe it in a second critical section")
					continue
				}
				// a fresh, not yet published Middleware is exempt
				if _, fresh := rootOf(fa.X).(*ssa.Alloc); fresh && name == "cors.NewMiddleware" {
					ck.flowAdd(fmt.Sprintf("C07/guarded_by/%s/%s_unpublished@%s", name, field, pos), true, "access to a Middleware that has not been returned yet")
					continue
				}
				need := 1
				if isStore {
					need = 2
					storeRegions = append(storeRegions, ins)
				} else {
					loads[field]++
				}
				ck.flowAdd(fmt.Sprintf("C07/guarded_by/%s/%s_%s_under_lock@%s", name, map[bool]string{true: "store", false: "load"}[isStore], field, pos),
					states[ins] >= need, fmt.Sprintf("lock state on the weakest path: %d, needed %d", states[ins], need))
			}
		}
		if !whitelist[name] {
			continue
		}
		if name == "cors.Middleware.Wrap$1" || name == "cors.Middleware.Config" {
			for _, fld := range []string{"icfg", "debug"} {
				ck.flowAdd(fmt.Sprintf("C07/single_snapshot/%s/%s", name, fld), loads[fld] <= 1,
					fmt.Sprintf("%d load sites of Middleware.%s (at most one allowed: one snapshot per call)", loads[fld], fld))
			}
			ck.flowAdd(fmt.Sprintf("C07/single_snapshot/%s/one_critical_section", name), nLock <= 1, fmt.Sprintf("%d lock acquisitions", nLock))
		}
		if name == "cors.Middleware.Reconfigure" || name == "cors.Middleware.SetDebug" {
			ck.flowAdd(fmt.Sprintf("C07/atomic_update/%s/one_critical_section", name), nLock == 1 && len(storeRegions) >= 1,
				fmt.Sprintf("%d lock acquisitions, %d guarded stores (all stores under the single write lock)", nLock, len(storeRegions)))
		}
	}
	// immutability after publication: no write through anything derived from *internalConfig
	// outside the construction call tree
	builders := map[string]bool{"cors.newInternalConfig": true}
	for _, f := range ck.moduleFuncs() {
		name := P.FnName[f]
		if builders[name] || strings.HasPrefix(name, "cors.internalConfig.validate") {
			continue
		}
		derived := icfgDerived(f)
		for _, b := range f.Blocks {
			for _, ins := range b.Instrs {
				bad := ""
				switch i := ins.(type) {
				case *ssa.Store:
					if derived[i.Addr] {
						bad = "store"
					}
				case *ssa.MapUpdate:
					if derived[i.Map] {
						bad = "map update"
					}
				case *ssa.Call:
					if bi, ok := i.Common().Value.(*ssa.Builtin); ok && (bi.Name() == "append" || bi.Name() == "copy") && len(i.Common().Args) > 0 && derived[i.Common().Args[0]] {
						bad = bi.Name() + " into"
					}
					if fn, ok := i.Common().Value.(*ssa.Function); ok {
						qn := qualName(fn)
						if (qn == "slices.Sort" || qn == "sort.Strings") && len(i.Common().Args) > 0 && derived[i.Common().Args[0]] {
							bad = qn + " of"
						}
					}
				}
				if bad != "" {
					ck.flowAdd(fmt.Sprintf("C07/immutable_after_publication/%s@%s", name, P.pos(ins.Pos())), false, bad+" memory reachable from a published *internalConfig")
				}
			}
		}
	}
	ck.flowAdd("C07/immutable_after_publication/no_write_through_internalConfig_outside_construction", true, "scanned all module functions")
}

// icfgDerived: values obtained from an *internalConfig by field/element addressing and loads.
func icfgDerived(f *ssa.Function) map[ssa.Value]bool {
	d := map[ssa.Value]bool{}
	for _, p := range f.Params {
		if isICfgPtr(p.Type()) {
			d[p] = true
		}
	}
	changed := true
	for changed {
		changed = false
		mark := func(v ssa.Value) {
			if !d[v] {
				d[v] = true
				changed = true
			}
		}
		for _, b := range f.Blocks {
			for _, ins := range b.Instrs {
				switch i := ins.(type) {
				case *ssa.FieldAddr:
					if d[i.X] {
						mark(i)
					}
				case *ssa.IndexAddr:
					if d[i.X] {
						mark(i)
					}
				case *ssa.Field:
					if d[i.X] {
						mark(i)
					}
				case *ssa.Slice:
					if d[i.X] {
						mark(i)
					}
				case *ssa.UnOp:
					if i.Op == token.MUL && d[i.X] && hasReference(i.Type(), 0) {
						mark(i)
					}
					if i.Op == token.MUL && isICfgPtr(i.Type()) {
						mark(i)
					}
				case *ssa.Phi:
					for _, e := range i.Edges {
						if d[e] {
							mark(i)
						}
					}
				case *ssa.ChangeType:
					if d[i.X] {
						mark(i)
					}
				}
			}
		}
	}
	return d
}

func isGlobalLoad(v ssa.Value) (string, bool) {
	for {
		switch a := v.(type) {
		case *ssa.UnOp:
			if a.Op == token.MUL {
				if g, ok := a.X.(*ssa.Global); ok {
					return g.Name(), true
				}
			}
			return "", false
		case *ssa.Slice:
			v = a.X
		case *ssa.ChangeType:
			v = a.X
		case *ssa.Phi:
			for _, e := range a.Edges {
				if n, ok := isGlobalLoad(e); ok {
					return n, true
				}
			}
			return "", false
		default:
			return "", false
		}
	}
}

func (ck *Check) checkC12() {
	P := ck.P
	// (4) no function except init stores to a package-level variable
	for _, f := range ck.moduleFuncs() {
		name := P.FnName[f]
		if strings.HasSuffix(name, ".init") || strings.Contains(name, ".init#") {
			continue
		}
		for _, b := range f.Blocks {
			for _, ins := range b.Instrs {
				if s, ok := ins.(*ssa.Store); ok {
					if g, ok := rootOf(s.Addr).(*ssa.Global); ok {
						ck.flowAdd(fmt.Sprintf("C12/no_store_to_package_level/%s@%s", name, P.pos(ins.Pos())), false, "store to package-level variable "+g.Name())
					}
				}
			}
		}
	}
	ck.flowAdd("C12/no_store_to_package_level/all_module_functions", true, "no Store rooted at a package-level variable outside init")

	// (3) handler-visible functions must not publish package-level or configuration-owned slices
	wrap := P.Funcs["cors.Middleware.Wrap$1"]
	visible := map[*ssa.Function]bool{}
	if wrap != nil {
		visible[wrap] = true
		for _, b := range wrap.Blocks {
			for idx, ins := range b.Instrs {
				c, ok := ins.(*ssa.Call)
				if !ok {
					continue
				}
				fn, ok := c.Common().Value.(*ssa.Function)
				if !ok || !P.inModule(fn) {
					continue
				}
				// is a ServeHTTP invoke reachable after this call within the block or successors?
				if serveReachable(b, idx+1, map[*ssa.BasicBlock]bool{}) {
					visible[fn] = true
				}
			}
		}
	}
	// every module function called (transitively) from a handler-visible function
	// other than the handler itself is handler-visible too; its call sites are
	// kept, so that a map value that is a parameter of a helper is judged by the
	// arguments passed for it
	type callSite struct {
		caller *ssa.Function
		call   *ssa.Call
	}
	sites := map[*ssa.Function][]callSite{}
	for changed := true; changed; {
		changed = false
		for f := range visible {
			if f == wrap {
				continue
			}
			for _, b := range f.Blocks {
				for _, ins := range b.Instrs {
					c, ok := ins.(*ssa.Call)
					if !ok {
						continue
					}
					fn, ok := c.Common().Value.(*ssa.Function)
					if !ok || !P.inModule(fn) || len(fn.Blocks) == 0 {
						continue
					}
					if !visible[fn] {
						visible[fn] = true
						changed = true
					}
				}
			}
		}
	}
	for f := range visible {
		if f == wrap {
			continue
		}
		for _, b := range f.Blocks {
			for _, ins := range b.Instrs {
				if c, ok := ins.(*ssa.Call); ok {
					if fn, ok := c.Common().Value.(*ssa.Function); ok && visible[fn] && fn != wrap {
						sites[fn] = append(sites[fn], callSite{f, c})
					}
				}
			}
		}
	}
	var vis []*ssa.Function
	for f := range visible {
		vis = append(vis, f)
	}
	sort.Slice(vis, func(i, j int) bool { return P.FnName[vis[i]] < P.FnName[vis[j]] })
	for _, f := range vis {
		name := P.FnName[f]
		derived := icfgDerived(f)
		for _, b := range f.Blocks {
			for _, ins := range b.Instrs {
				mu, ok := ins.(*ssa.MapUpdate)
				if !ok {
					continue
				}
				par, ok := mu.Value.(*ssa.Parameter)
				if !ok {
					continue
				}
				k := -1
				for i, q := range f.Params {
					if q == par {
						k = i
					}
				}
				for _, cs := range sites[f] {
					if k < 0 || k >= len(cs.call.Common().Args) {
						continue
					}
					arg := cs.call.Common().Args[k]
					pos := P.pos(cs.call.Pos())
					if g, ok := isGlobalLoad(arg); ok {
						ck.flowAdd(fmt.Sprintf("C12/handler_visible/%s/no_package_level_slice_through_%s@%s", P.FnName[cs.caller], name, pos), false,
							"package-level slice "+g+" is passed to "+name+", which stores it into a header map that the wrapped handler can reach and mutate in place")
					} else if icfgDerived(cs.caller)[arg] {
						ck.flowAdd(fmt.Sprintf("C12/handler_visible/%s/no_configuration_owned_slice_through_%s@%s", P.FnName[cs.caller], name, pos), false,
							"a slice owned by the internalConfig is passed to "+name+", which stores it into a header map that the wrapped handler can reach")
					}
				}
			}
		}
		for _, b := range f.Blocks {
			for _, ins := range b.Instrs {
				mu, ok := ins.(*ssa.MapUpdate)
				if !ok {
					continue
				}
				pos := P.pos(ins.Pos())
				if g, ok := isGlobalLoad(mu.Value); ok {
					ck.flowAdd(fmt.Sprintf("C12/handler_visible/%s/no_package_level_slice@%s", name, pos), false,
						"package-level slice "+g+" is stored into a header map that the wrapped handler can reach and mutate in place")
					continue
				}
				if derived[mu.Value] {
					ck.flowAdd(fmt.Sprintf("C12/handler_visible/%s/no_configuration_owned_slice@%s", name, pos), false,
						"a slice owned by the internalConfig is stored into a header map that the wrapped handler can reach")
					continue
				}
				ck.flowAdd(fmt.Sprintf("C12/handler_visible/%s/map_value_is_request_owned_or_fresh@%s", name, pos), true, "")
			}
		}
	}
	ck.flowAdd("C12/handler_visible/functions_followed_by_ServeHTTP", len(vis) >= 3, fmt.Sprintf("%d functions on handler-visible paths", len(vis)))

	// (1) no caller-owned slice is stored into the internalConfig
	for _, f := range ck.corsFuncs() {
		name := P.FnName[f]
		if name != "cors.newInternalConfig" && !strings.HasPrefix(name, "cors.internalConfig.validate") {
			continue
		}
		for _, b := range f.Blocks {
			for _, ins := range b.Instrs {
				s, ok := ins.(*ssa.Store)
				if !ok {
					continue
				}
				if _, isSlice := s.Val.Type().Underlying().(*types.Slice); !isSlice {
					continue
				}
				fa, ok := s.Addr.(*ssa.FieldAddr)
				if !ok || !isICfgPtr(fa.X.Type()) {
					continue
				}
				ck.flowAdd(fmt.Sprintf("C12/config_not_aliased/%s/stored_slice_is_fresh@%s", name, P.pos(ins.Pos())), freshSlice(s.Val, 0),
					"a slice stored into the internalConfig must be allocated in the validator (composite literal / make)")
			}
		}
	}
	// (2) Config() results are fresh
	if f := P.Funcs["cors.newConfig"]; f != nil {
		for _, b := range f.Blocks {
			for _, ins := range b.Instrs {
				s, ok := ins.(*ssa.Store)
				if !ok {
					continue
				}
				if _, isSlice := s.Val.Type().Underlying().(*types.Slice); !isSlice {
					continue
				}
				ck.flowAdd(fmt.Sprintf("C12/config_result_fresh/cors.newConfig@%s", P.pos(ins.Pos())), freshSlice(s.Val, 0),
					"every slice placed in the Config returned by Config() must be freshly allocated (literal, Elems, ToSlice, strings.Split)")
			}
		}
	}
	for _, n := range []string{"util.SortedSet.ToSlice", "util.Set.ToSlice"} {
		f := P.Funcs[n]
		if f == nil {
			ck.flowAdd("C12/config_result_fresh/"+n, false, "function not found")
			continue
		}
		for _, b := range f.Blocks {
			for _, ins := range b.Instrs {
				if r, ok := ins.(*ssa.Return); ok && len(r.Results) == 1 {
					ck.flowAdd(fmt.Sprintf("C12/config_result_fresh/%s/returns_a_copy", n), freshSlice(r.Results[0], 0), "ToSlice must return a copy of the set's elements")
				}
			}
		}
	}
	if f := P.Funcs["origins.Tree.Elems"]; f != nil {
		okAll := true
		for _, b := range f.Blocks {
			for _, ins := range b.Instrs {
				if r, ok := ins.(*ssa.Return); ok && len(r.Results) == 1 {
					// result is the local `res` built by appends of freshly concatenated strings
					v := r.Results[0]
					if u, ok := v.(*ssa.UnOp); ok {
						if _, isAlloc := u.X.(*ssa.Alloc); !isAlloc {
							okAll = false
						}
					} else {
						okAll = false
					}
				}
			}
		}
		ck.flowAdd("C12/config_result_fresh/origins.Tree.Elems/returns_local_slice", okAll, "")
	}
}

func serveReachable(b *ssa.BasicBlock, from int, seen map[*ssa.BasicBlock]bool) bool {
	for _, ins := range b.Instrs[from:] {
		if c, ok := ins.(*ssa.Call); ok && c.Common().IsInvoke() && c.Common().Method.Name() == "ServeHTTP" {
			return true
		}
	}
	for _, s := range b.Succs {
		if !seen[s] {
			seen[s] = true
			if serveReachable(s, 0, seen) {
				return true
			}
		}
	}
	return false
}

// freshSlice: the slice value is allocated by the function itself or by a
// callee known to return fresh memory.
func freshSlice(v ssa.Value, depth int) bool {
	if depth > 6 {
		return false
	}
	switch a := v.(type) {
	case *ssa.Slice:
		if al, ok := a.X.(*ssa.Alloc); ok {
			_ = al
			return true
		}
		return false
	case *ssa.MakeSlice:
		return true
	case *ssa.Const:
		return a.Value == nil // nil slice
	case *ssa.Call:
		if fn, ok := a.Common().Value.(*ssa.Function); ok {
			switch qualName(fn) {
			case "slices.Clone", "strings.Split", "origins.Tree.Elems", "util.Set.ToSlice", "util.SortedSet.ToSlice":
				return true
			}
		}
		return false
	case *ssa.Phi:
		for _, e := range a.Edges {
			if !freshSlice(e, depth+1) {
				return false
			}
		}
		return true
	}
	return false
}
