package main

// C10 (2-safety): Vary sufficiency, by self-composition of the handler VC.
// The closure returned by Wrap is executed symbolically twice, on two requests
// r and r2 with the same middleware state, writer and pre-set response
// headers; for every pair of final states it is proved that, if the two
// requests have the same method and carry identical value lists for every
// request-header name that the FIRST run put into Vary, then both runs end
// with the same event sequence, the same status and the same response-header
// map at the point where the middleware is done.

import (
	"fmt"
	"go/types"
	"os"
	"path/filepath"
	"strings"
	"time"

	"golang.org/x/tools/go/ssa"
)

func init() {
	propChecks["C10"] = checkC10
}

func emittedHeaps(st *State) map[string]Term {
	if st.atServe != nil {
		return st.atServe
	}
	return st.heaps
}

func checkC10(ck *Check) int {
	P := ck.P
	ck.assume = map[string]bool{}
	ck.crossLight = true
	name := "cors.Middleware.Wrap$1"
	f := P.Funcs[name]
	c := P.Specs.Contracts[name]
	if f == nil || c == nil {
		fmt.Fprintln(os.Stderr, "engine error: no contract for", name)
		return 2
	}
	x := NewExec(P, f, c)
	x.noSafety = true
	x.noMergeTop = true
	x.lemmaText = ck.lemmaTexts(x, c.Lemmas)
	var fin1, fin2 []*State
	x.collect = &fin1
	if err := x.Run(); err != nil {
		ck.outOfSub = append(ck.outOfSub, fmt.Sprintf("%s: %v", name, err))
		return ck.finish("proof")
	}
	x.rename = map[string]string{"r": "p2!r"}
	x.collect = &fin2
	if err := x.Run(); err != nil {
		ck.outOfSub = append(ck.outOfSub, fmt.Sprintf("%s: %v", name, err))
		return ck.finish("proof")
	}
	x.vcs = nil
	ck.execs = append(ck.execs, x)
	if os.Getenv("GOVC_DEBUG") != "" {
		fmt.Fprintf(os.Stderr, "C10: %d x %d final states\n", len(fin1), len(fin2))
	}
	var r1, r2 Term
	for _, p := range f.Params {
		if p.Name() == "r" {
			r1 = Term{sym("p!r"), SInt}
			r2 = Term{sym("p2!r"), SInt}
		}
	}
	var wv Val
	for _, s := range fin1 {
		for _, p := range f.Params {
			if p.Name() == "w" {
				wv = s.vals[ssa.Value(p)]
			}
		}
		break
	}
	si := P.structOf(f.Params[1].Type())
	_, mf := si.field("Method")
	hi, _ := si.field("Header")
	mi, _ := si.field("Method")
	_ = mf
	whdr := App(x.declareFun("whdr", []Sort{SIface}, SInt), SInt, wv.T)
	lit := func(s string) Term { return P.strLit(s) }
	reqKeys4 := []string{"Access-Control-Request-Headers", "Access-Control-Request-Method", "Access-Control-Request-Private-Network"}
	var jobs []job
	for i, s1 := range fin1 {
		for j, s2 := range fin2 {
			st := s1.clone()
			st.pcSet = nil
			for _, fct := range s2.pc {
				st.assume(fct)
			}
			// entry-state request fields
			method := func(r Term) Term {
				return readArrSt(nil, x.heap(st, fieldHeap(si, mi), SStr), r, SStr)
			}
			hdrOf := func(r Term) Term {
				return readArrSt(nil, x.heap(st, fieldHeap(si, hi), SInt), r, SInt)
			}
			mp0 := Term{sym("H0!MP!"), heapSort("MP!", SBool)}
			mv0 := Term{sym("H0!MV!"), heapSort("MV!", SSlice)}
			x.declare("H0!MP!", mp0.Sort)
			x.declare("H0!MV!", mv0.Sort)
			agree := func(k string) Term {
				kk := lit(k)
				p1 := Select(Select(mp0, hdrOf(r1), "(Array Str Bool)"), kk, SBool)
				p2 := Select(Select(mp0, hdrOf(r2), "(Array Str Bool)"), kk, SBool)
				v1 := Select(Select(mv0, hdrOf(r1), "(Array Str Slice)"), kk, SSlice)
				v2 := Select(Select(mv0, hdrOf(r2), "(Array Str Slice)"), kk, SSlice)
				return And(Eq(p1, p2), Eq(v1, v2))
			}
			// what run 1 put into Vary
			h1 := emittedHeaps(s1)
			h2 := emittedHeaps(s2)
			row := func(h map[string]Term, heap string, sort Sort) Term {
				t, ok := h[heap]
				if !ok {
					t = x.heap(st, heap, heapElemSort(heap))
				}
				return readArrSt(nil, t, whdr, sort)
			}
			v1 := readArrSt(nil, row(h1, "MV!", "(Array Str Slice)"), lit("Vary"), SSlice)
			e1, ok := h1["E!Str"]
			if !ok {
				e1 = x.heap(st, "E!Str", SStr)
			}
			// The middleware only ever appends ONE entry to Vary (or installs the
			// preflight singleton): the hypothesis is read off the last entry.
			v0 := readArrSt(nil, readArrSt(nil, mv0, whdr, "(Array Str Slice)"), lit("Vary"), SSlice)
			last := Select(readArrSt(nil, e1, SlArr(v1), "(Array Int Str)"), Add(SlOff(v1), Sub(SlLen(v1), Int(1))), SStr)
			p0 := readArrSt(nil, readArrSt(nil, mp0, whdr, "(Array Str Bool)"), lit("Vary"), SBool)
			p1 := readArrSt(nil, row(h1, "MP!", "(Array Str Bool)"), lit("Vary"), SBool)
			// an absent key's value row is unconstrained: presence decides first
			changed := And(p1, Or(Not(p0), Not(Eq(v1, v0))))
			fourNames := "Access-Control-Request-Headers, Access-Control-Request-Method, Access-Control-Request-Private-Network, Origin"
			// the package-level singleton installed on the fast path holds exactly the
			// four-name value (datafact glob_singletons, evaluated on the real package)
			pre := x.globalVal("headers.PreflightVarySgl", types.NewSlice(types.Typ[types.String]))
			lists4 := Or(And(changed, Eq(v1, pre)), And(changed, Lt(Int(0), SlLen(v1)), Eq(last, lit(fourNames))))
			listsO := Or(lists4, And(changed, Lt(Int(0), SlLen(v1)), Eq(last, lit("Origin"))))
			st.assume(Eq(method(r1), method(r2)))
			st.assume(Implies(listsO, agree("Origin")))
			var a4 []Term
			for _, k := range reqKeys4 {
				a4 = append(a4, agree(k))
			}
			st.assume(Implies(lists4, And(a4...)))
			// goal
			var goal Term
			if eventSig(s1.events) != eventSig(s2.events) {
				goal = False // cache-equivalent requests must be handled the same way
			} else {
				var gs []Term
				for k := range s1.events {
					if s1.events[k].Kind == "WriteHeader" {
						gs = append(gs, Eq(s1.events[k].Args[1].T, s2.events[k].Args[1].T))
					}
				}
				// response-header maps agree, key by key (the keys the middleware can
				// touch, plus an arbitrary other key k0), element by element (arbitrary j0)
				j0 := x.fresh("j0", SInt)
				e2, ok := h2["E!Str"]
				if !ok {
					e2 = x.heap(st, "E!Str", SStr)
				}
				keyEq := func(k Term) Term {
					p1 := readArrSt(nil, row(h1, "MP!", "(Array Str Bool)"), k, SBool)
					p2 := readArrSt(nil, row(h2, "MP!", "(Array Str Bool)"), k, SBool)
					w1 := readArrSt(nil, row(h1, "MV!", "(Array Str Slice)"), k, SSlice)
					w2 := readArrSt(nil, row(h2, "MV!", "(Array Str Slice)"), k, SSlice)
					el1 := Select(readArrSt(nil, e1, SlArr(w1), "(Array Int Str)"), Add(SlOff(w1), j0), SStr)
					el2 := Select(readArrSt(nil, e2, SlArr(w2), "(Array Int Str)"), Add(SlOff(w2), j0), SStr)
					return And(Eq(p1, p2), Implies(p1, Or(Eq(w1, w2), And(Eq(SlLen(w1), SlLen(w2)), Implies(And(Le(Int(0), j0), Lt(j0, SlLen(w1))), Eq(el1, el2))))))
				}
				keys := []string{"Vary", "Access-Control-Allow-Origin", "Access-Control-Allow-Credentials", "Access-Control-Allow-Methods",
					"Access-Control-Allow-Headers", "Access-Control-Allow-Private-Network", "Access-Control-Max-Age", "Access-Control-Expose-Headers"}
				k0 := x.fresh("k0", SStr)
				var other []Term
				for _, k := range keys {
					gs = append(gs, keyEq(lit(k)))
					other = append(other, Ne(k0, lit(k)))
				}
				gs = append(gs, Implies(And(other...), keyEq(k0)))
				goal = And(gs...)
			}
			vc := &VC{Name: fmt.Sprintf("%s/C10.vary_sufficient/pair_%d_%d", name, i, j), Fn: name, Kind: "ensures", Prop: "C10",
				Assumes: st.pc, Goal: goal, Trace: strings.Join(s1.trace, ">") + " || " + strings.Join(s2.trace, ">"),
				Src:  "same method and identical values for the request headers named in run 1's Vary ==> same events, status and response-header map",
				uses: c.Lemmas}
			jobs = append(jobs, job{x, vc})
		}
	}
	// Vary values set earlier in the chain are preserved, in front (per final state of run 1)
	for i, s1 := range fin1 {
		st := s1.clone()
		mp0 := s1.entry.heaps["MP!"]
		mv0 := s1.entry.heaps["MV!"]
		e0 := s1.entry.heaps["E!Str"]
		if mp0.IsZero() || mv0.IsZero() {
			continue
		}
		h1 := emittedHeaps(s1)
		get := func(h Term, zero Term) Term {
			if h.IsZero() {
				return zero
			}
			return h
		}
		e1 := get(h1["E!Str"], x.heap(st, "E!Str", SStr))
		if e0.IsZero() {
			e0 = e1
		}
		p0 := readArrSt(nil, readArrSt(nil, mp0, whdr, "(Array Str Bool)"), lit("Vary"), SBool)
		v0 := readArrSt(nil, readArrSt(nil, mv0, whdr, "(Array Str Slice)"), lit("Vary"), SSlice)
		p1 := readArrSt(nil, readArrSt(nil, get(h1["MP!"], mp0), whdr, "(Array Str Bool)"), lit("Vary"), SBool)
		v1 := readArrSt(nil, readArrSt(nil, get(h1["MV!"], mv0), whdr, "(Array Str Slice)"), lit("Vary"), SSlice)
		j0 := x.fresh("j0", SInt)
		st.assume(x.wf(v0, types.NewSlice(types.Typ[types.String])))
		el0 := Select(readArrSt(nil, e0, SlArr(v0), "(Array Int Str)"), Add(SlOff(v0), j0), SStr)
		el1 := Select(readArrSt(nil, e1, SlArr(v1), "(Array Int Str)"), Add(SlOff(v1), j0), SStr)
		goal := Implies(p0, And(p1, Le(SlLen(v0), SlLen(v1)), Implies(And(Le(Int(0), j0), Lt(j0, SlLen(v0))), Eq(el1, el0))))
		vc := &VC{Name: fmt.Sprintf("%s/C10.vary_preserved/state_%d", name, i), Fn: name, Kind: "ensures", Prop: "C10",
			Assumes: st.pc, Goal: goal, Trace: strings.Join(s1.trace, ">"),
			Src:  "a Vary value present before the middleware runs is a prefix of the Vary value afterwards",
			uses: c.Lemmas}
		jobs = append(jobs, job{x, vc})
	}
	ck.discharge(jobs)
	failing := 0
	for _, r := range ck.results {
		if r.Status != "unsat" {
			failing++
		}
	}
	if failing > 0 || ck.Tier == "thorough" {
		ck.runC10Search(failing > 0)
	}
	ck.assume["agreement of two requests on a header is modelled as identical value slices (same backing array), not merely equal bytes"] = true
	ck.assume["only Vary entries appended by the middleware are used as agreement hypotheses (entries pre-set earlier in the chain are ignored, which makes the obligation stronger)"] = true
	if ck.extraCov == nil {
		ck.extraCov = map[string]any{}
	}
	ck.extraCov["self_composition"] = map[string]any{"final_states_run1": len(fin1), "final_states_run2": len(fin2), "pairs": len(jobs)}
	return ck.finish("proof")
}

// runC10Search: see runConcreteSearch.
func (ck *Check) runC10Search(asReplay bool) {
	ck.runConcreteSearch(asReplay, "C10", "c10_pairs_test.go", "^TestGovcC10$",
		"every pair of requests from a small universe x configurations x debug x pre-set Vary, oracle = the statement of C10")
}

// runConcreteSearch runs a concrete search harness (harness/<file>) on the
// real middleware. asReplay: an obligation of the property failed and the
// search result is attached to the replay files (a failing input found on the
// real code confirms the violation); otherwise it is reported as a bounded
// cross-check that is never counted as proved.
func (ck *Check) runConcreteSearch(asReplay bool, tag, file, testRe, what string) {
	src, err := os.ReadFile(filepath.Join(ck.Verif, "harness", file))
	if err != nil {
		ck.engineErr = append(ck.engineErr, err.Error())
		return
	}
	out, _ := ck.runOverlayTest(".", "zz_govc_"+strings.ToLower(tag)+"_test.go", string(src), testRe, 10*time.Minute)
	found := false
	fails := 0
	summary := ""
	var failLines []string
	lines := strings.Split(out, "\n")
	for i, ln := range lines {
		if strings.HasPrefix(ln, "GOVC-"+tag+"-FAIL") && len(failLines) < 5 {
			fl := ln
			for k := i + 1; k < len(lines) && k <= i+2 && strings.HasPrefix(lines[k], "  request"); k++ {
				fl += " ;" + lines[k]
			}
			failLines = append(failLines, fl)
		}
		if strings.HasPrefix(ln, "GOVC-"+tag+" ") {
			summary = strings.TrimPrefix(ln, "GOVC-"+tag+" ")
			if i := strings.LastIndex(ln, "fails="); i >= 0 {
				fmt.Sscanf(ln[i:], "fails=%d", &fails)
			}
			found = true
		}
	}
	d := map[string]any{
		"name":     "bounded/" + tag + ".concrete_search",
		"kind":     "BOUNDED search on the real middleware (not a proof): " + what,
		"function": "cors.Middleware.Wrap (handler) behind NewMiddleware",
		"bound":    summary,
		"ok":       found && fails == 0,
	}
	if !found {
		d["output"] = firstLines(out, 30)
	}
	if fails > 0 {
		d["failing_cases"] = failLines
		d["how_to_replay"] = "copy /verif/harness/" + file + " into /repo and run go test -run '" + testRe + "' -v"
	}
	if asReplay {
		ck.replayExtra = func(r *Result) (map[string]any, bool) { return d, found && fails > 0 }
		return
	}
	ck.bounded = append(ck.bounded, d)
}
