package main

import (
	"go/types"

	"golang.org/x/tools/go/ssa"
)

// readSet over-approximates the heaps a pure function's result may depend
// on: every heap addressed by a FieldAddr/IndexAddr/Lookup in its body or in
// the bodies of module callees (transitively); for functions outside the
// module, the contract's `reads` clause.
func (P *Prog) readSet(name string, f *ssa.Function, c *Contract) map[string]Sort {
	if r, ok := P.readsCache[name]; ok {
		return r
	}
	out := map[string]Sort{}
	if P.readsCache == nil {
		P.readsCache = map[string]map[string]Sort{}
	}
	P.readsCache[name] = out // cycle guard
	if c != nil && len(c.Reads) > 0 {
		for _, h := range c.Reads {
			out[h] = elemSortOfHeapName(h)
			if h == "MP!" {
				out[h] = SBool
			}
			if h == "MV!" {
				out[h] = SSlice
			}
		}
		return out
	}
	if f == nil || len(f.Blocks) == 0 || !P.inModule(f) {
		return out
	}
	// A function all of whose parameters are scalars or strings can reach
	// mutable memory only through package-level variables, which are
	// immutable after initialisation: its result depends on no heap.
	refParam := false
	for _, p := range f.Params {
		if hasReference(p.Type(), 0) {
			refParam = true
		}
	}
	if !refParam && len(f.FreeVars) == 0 {
		return out
	}
	x := &Exec{P: P}
	for _, b := range f.Blocks {
		for _, in := range b.Instrs {
			switch in := in.(type) {
			case *ssa.FieldAddr:
				if rootIsLocalAlloc(in.X) {
					continue
				}
				si := P.structOf(in.X.Type())
				fi := si.Fields[in.Field]
				if !isStruct(fi.Ty) && !isArray(fi.Ty) {
					out[fieldHeap(si, in.Field)] = fi.Sort
				}
			case *ssa.IndexAddr:
				if rootIsLocalAlloc(in.X) {
					continue
				}
				var et types.Type
				switch t := in.X.Type().Underlying().(type) {
				case *types.Slice:
					et = t.Elem()
				case *types.Pointer:
					et = t.Elem().Underlying().(*types.Array).Elem()
				}
				if et != nil {
					if isStruct(et) {
						// struct elements are addressed; their fields are read via FieldAddr
					} else {
						s := P.sortOf(et)
						out["E!"+string(s)] = s
					}
				}
			case *ssa.UnOp:
				// load of a whole struct through a pointer reads all its fields
				if _, isG := in.X.(*ssa.Global); isG {
					continue
				}
				if in.Op.String() == "*" && !rootIsLocalAlloc(in.X) {
					if pt, ok := in.X.Type().Underlying().(*types.Pointer); ok {
						if isStruct(pt.Elem()) {
							x.structHeaps(pt.Elem(), out)
						} else if _, isFA := in.X.(*ssa.FieldAddr); !isFA {
							if _, isIA := in.X.(*ssa.IndexAddr); !isIA {
								if _, isG := in.X.(*ssa.Global); !isG {
									if _, isAl := in.X.(*ssa.Alloc); !isAl {
										s := P.sortOf(pt.Elem())
										out["C!"+string(s)] = s
									}
								}
							}
						}
					}
				}
			case *ssa.Lookup:
				if _, ok := in.X.Type().Underlying().(*types.Map); ok {
					out["MP!"] = SBool
					out["MV!"] = SSlice
				}
			case *ssa.Call:
				if g, ok := in.Common().Value.(*ssa.Function); ok {
					gn := qualName(g)
					gc := P.Specs.Contracts[gn]
					if gc != nil && (gc.Inline || gc.ByExec) && len(gc.Reads) == 0 {
						// defined by its contract: its reads are those of the definition
						// (byte predicates: none)
						if gc.ByExec {
							continue
						}
					}
					for h, s := range P.readSet(gn, g, gc) {
						out[h] = s
					}
				}
			}
		}
	}
	return out
}

// rootIsLocalAlloc: the address is derived (through field/index addressing)
// from an allocation of the function itself.
func rootIsLocalAlloc(v ssa.Value) bool {
	for {
		switch a := v.(type) {
		case *ssa.Alloc:
			return true
		case *ssa.FieldAddr:
			v = a.X
		case *ssa.IndexAddr:
			v = a.X
		default:
			return false
		}
	}
}

func hasReference(t types.Type, depth int) bool {
	if depth > 6 {
		return true
	}
	switch u := t.Underlying().(type) {
	case *types.Basic:
		return false
	case *types.Struct:
		for i := 0; i < u.NumFields(); i++ {
			if hasReference(u.Field(i).Type(), depth+1) {
				return true
			}
		}
		return false
	case *types.Array:
		return hasReference(u.Elem(), depth+1)
	}
	return true
}
