package main

// Parser for the contract expression language (Gobra-flavoured Go
// expressions with quantifiers, ==>, <==>, === and old()).

import (
	"fmt"
	"strconv"
	"strings"
)

type Expr interface{ expr() }

type (
	EIdent struct{ Name string }
	EInt   struct{ V string }
	EStr   struct{ V string }
	EBool  struct{ V bool }
	EUn    struct {
		Op string
		X  Expr
	}
	EBin struct {
		Op   string
		L, R Expr
	}
	ECall struct {
		Fn   string
		Args []Expr
	}
	EMethod struct {
		X    Expr
		Name string
		Args []Expr
	}
	EIndex struct{ X, I Expr }
	ESlice struct{ X, Lo, Hi Expr }
	EField struct {
		X    Expr
		Name string
	}
	EQuant struct {
		Forall bool
		Vars   []string
		Types  []string // "" = int
		Body   Expr
	}
	EOld  struct{ X Expr }
	ECond struct{ C, A, B Expr }
)

func (EIdent) expr()  {}
func (EInt) expr()    {}
func (EStr) expr()    {}
func (EBool) expr()   {}
func (EUn) expr()     {}
func (EBin) expr()    {}
func (ECall) expr()   {}
func (EMethod) expr() {}
func (EIndex) expr()  {}
func (ESlice) expr()  {}
func (EField) expr()  {}
func (EQuant) expr()  {}
func (EOld) expr()    {}
func (ECond) expr()   {}

type stok struct {
	kind string // id, int, str, chr, op, eof
	text string
	pos  int
}

func lexSpec(src string) ([]stok, error) {
	var toks []stok
	i := 0
	ops := []string{"<==>", "==>", "===", "!==", "::", "==", "!=", "<=", ">=", "&&", "||",
		"+", "-", "*", "/", "%", "<", ">", "!", "(", ")", "[", "]", ":", ",", ".", "?"}
	for i < len(src) {
		c := src[i]
		switch {
		case c == ' ' || c == '\t' || c == '\n':
			i++
		case c >= '0' && c <= '9':
			j := i
			for j < len(src) && (src[j] >= '0' && src[j] <= '9' || src[j] == 'x' || src[j] >= 'a' && src[j] <= 'f' || src[j] >= 'A' && src[j] <= 'F' || src[j] == '_') {
				j++
			}
			toks = append(toks, stok{"int", src[i:j], i})
			i = j
		case c == '_' || c >= 'a' && c <= 'z' || c >= 'A' && c <= 'Z':
			j := i
			for j < len(src) && (src[j] == '_' || src[j] == '$' || src[j] >= 'a' && src[j] <= 'z' || src[j] >= 'A' && src[j] <= 'Z' || src[j] >= '0' && src[j] <= '9') {
				j++
			}
			toks = append(toks, stok{"id", src[i:j], i})
			i = j
		case c == '"':
			j := i + 1
			for j < len(src) && src[j] != '"' {
				if src[j] == '\\' {
					j++
				}
				j++
			}
			if j >= len(src) {
				return nil, fmt.Errorf("unterminated string at %d", i)
			}
			s, err := strconv.Unquote(src[i : j+1])
			if err != nil {
				return nil, fmt.Errorf("bad string literal %s", src[i:j+1])
			}
			toks = append(toks, stok{"str", s, i})
			i = j + 1
		case c == '\'':
			j := i + 1
			for j < len(src) && src[j] != '\'' {
				if src[j] == '\\' {
					j++
				}
				j++
			}
			if j >= len(src) {
				return nil, fmt.Errorf("unterminated char at %d", i)
			}
			r, _, _, err := strconv.UnquoteChar(src[i+1:j], '\'')
			if err != nil {
				return nil, fmt.Errorf("bad char literal %s", src[i:j+1])
			}
			toks = append(toks, stok{"int", strconv.Itoa(int(r)), i})
			i = j + 1
		default:
			matched := false
			for _, op := range ops {
				if strings.HasPrefix(src[i:], op) {
					toks = append(toks, stok{"op", op, i})
					i += len(op)
					matched = true
					break
				}
			}
			if !matched {
				return nil, fmt.Errorf("unexpected character %q at %d in %q", c, i, src)
			}
		}
	}
	toks = append(toks, stok{"eof", "", len(src)})
	return toks, nil
}

type specParser struct {
	toks []stok
	p    int
	src  string
}

func ParseSpecExpr(src string) (e Expr, err error) {
	toks, err := lexSpec(src)
	if err != nil {
		return nil, err
	}
	ps := &specParser{toks: toks, src: src}
	defer func() {
		if r := recover(); r != nil {
			if pe, ok := r.(parseErr); ok {
				err = fmt.Errorf("%s (in %q)", string(pe), src)
				return
			}
			panic(r)
		}
	}()
	e = ps.parseExpr()
	if ps.peek().kind != "eof" {
		ps.fail("trailing input %q", ps.peek().text)
	}
	return e, nil
}

type parseErr string

func (ps *specParser) fail(f string, a ...any) {
	panic(parseErr(fmt.Sprintf(f, a...)))
}
func (ps *specParser) peek() stok { return ps.toks[ps.p] }
func (ps *specParser) next() stok { t := ps.toks[ps.p]; ps.p++; return t }
func (ps *specParser) isOp(s string) bool {
	t := ps.peek()
	return t.kind == "op" && t.text == s
}
func (ps *specParser) accept(s string) bool {
	if ps.isOp(s) {
		ps.p++
		return true
	}
	return false
}
func (ps *specParser) expect(s string) {
	if !ps.accept(s) {
		ps.fail("expected %q, got %q", s, ps.peek().text)
	}
}

func (ps *specParser) parseExpr() Expr {
	t := ps.peek()
	if t.kind == "id" && (t.text == "forall" || t.text == "exists") {
		ps.next()
		var vars, tys []string
		for {
			v := ps.next()
			if v.kind != "id" {
				ps.fail("expected bound variable")
			}
			vars = append(vars, v.text)
			ty := ""
			star := ""
			if ps.isOp("[") {
				ps.next()
				ps.expect("]")
				star = "[]"
			}
			if ps.isOp("*") {
				ps.next()
				star += "*"
			}
			if ps.peek().kind == "id" {
				ty = star + ps.next().text
				if ps.isOp(".") {
					ps.next()
					ty += "." + ps.next().text
				}
			}
			tys = append(tys, ty)
			if !ps.accept(",") {
				break
			}
		}
		ps.expect("::")
		body := ps.parseExpr()
		return EQuant{t.text == "forall", vars, tys, body}
	}
	return ps.parseCond()
}

func (ps *specParser) parseCond() Expr {
	c := ps.parseIff()
	if ps.accept("?") {
		a := ps.parseExpr()
		ps.expect(":")
		b := ps.parseExpr()
		return ECond{c, a, b}
	}
	return c
}

func (ps *specParser) parseIff() Expr {
	l := ps.parseImpl()
	for ps.accept("<==>") {
		r := ps.parseImpl()
		l = EBin{"<==>", l, r}
	}
	return l
}

func (ps *specParser) parseImpl() Expr {
	l := ps.parseOr()
	if ps.accept("==>") {
		// right associative; the consequent may be a quantifier
		var r Expr
		if t := ps.peek(); t.kind == "id" && (t.text == "forall" || t.text == "exists") {
			r = ps.parseExpr()
		} else {
			r = ps.parseImpl()
		}
		return EBin{"==>", l, r}
	}
	return l
}

func (ps *specParser) parseOr() Expr {
	l := ps.parseAnd()
	for ps.accept("||") {
		r := ps.parseAnd()
		l = EBin{"||", l, r}
	}
	return l
}

func (ps *specParser) parseAnd() Expr {
	l := ps.parseCmp()
	for ps.accept("&&") {
		var r Expr
		if t := ps.peek(); t.kind == "id" && (t.text == "forall" || t.text == "exists") {
			r = ps.parseExpr()
		} else {
			r = ps.parseCmp()
		}
		l = EBin{"&&", l, r}
	}
	return l
}

func (ps *specParser) parseCmp() Expr {
	l := ps.parseAdd()
	for _, op := range []string{"===", "!==", "==", "!=", "<=", ">=", "<", ">"} {
		if ps.accept(op) {
			r := ps.parseAdd()
			return EBin{op, l, r}
		}
	}
	return l
}

func (ps *specParser) parseAdd() Expr {
	l := ps.parseMul()
	for {
		switch {
		case ps.accept("+"):
			l = EBin{"+", l, ps.parseMul()}
		case ps.accept("-"):
			l = EBin{"-", l, ps.parseMul()}
		default:
			return l
		}
	}
}

func (ps *specParser) parseMul() Expr {
	l := ps.parseUnary()
	for {
		switch {
		case ps.accept("*"):
			l = EBin{"*", l, ps.parseUnary()}
		case ps.accept("/"):
			l = EBin{"/", l, ps.parseUnary()}
		case ps.accept("%"):
			l = EBin{"%", l, ps.parseUnary()}
		default:
			return l
		}
	}
}

func (ps *specParser) parseUnary() Expr {
	if ps.accept("!") {
		return EUn{"!", ps.parseUnary()}
	}
	if ps.accept("-") {
		return EUn{"-", ps.parseUnary()}
	}
	return ps.parsePostfix()
}

func (ps *specParser) parsePostfix() Expr {
	x := ps.parsePrimary()
	for {
		switch {
		case ps.accept("."):
			id := ps.next()
			if id.kind != "id" && id.kind != "int" {
				ps.fail("expected field name after '.'")
			}
			if ps.isOp("(") {
				ps.next()
				var args []Expr
				if !ps.isOp(")") {
					for {
						args = append(args, ps.parseExpr())
						if !ps.accept(",") {
							break
						}
					}
				}
				ps.expect(")")
				x = EMethod{x, id.text, args}
				continue
			}
			x = EField{x, id.text}
		case ps.accept("["):
			var lo, hi Expr
			if ps.accept(":") {
				if !ps.isOp("]") {
					hi = ps.parseExpr()
				}
				ps.expect("]")
				x = ESlice{x, nil, hi}
				continue
			}
			lo = ps.parseExpr()
			if ps.accept(":") {
				if !ps.isOp("]") {
					hi = ps.parseExpr()
				}
				ps.expect("]")
				x = ESlice{x, lo, hi}
				continue
			}
			ps.expect("]")
			x = EIndex{x, lo}
		default:
			return x
		}
	}
}

func (ps *specParser) parsePrimary() Expr {
	t := ps.next()
	switch t.kind {
	case "int":
		return EInt{t.text}
	case "str":
		return EStr{t.text}
	case "id":
		switch t.text {
		case "true":
			return EBool{true}
		case "false":
			return EBool{false}
		}
		// qualified names: pkg.Func( or plain Func(
		name := t.text
		if ps.isOp("(") {
			ps.next()
			var args []Expr
			if !ps.isOp(")") {
				for {
					args = append(args, ps.parseExpr())
					if !ps.accept(",") {
						break
					}
				}
			}
			ps.expect(")")
			if name == "old" {
				if len(args) != 1 {
					ps.fail("old takes one argument")
				}
				return EOld{args[0]}
			}
			return ECall{name, args}
		}
		return EIdent{name}
	case "op":
		if t.text == "(" {
			e := ps.parseExpr()
			ps.expect(")")
			return e
		}
	}
	ps.fail("unexpected stok %q", t.text)
	return nil
}
