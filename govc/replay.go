package main

import (
	"bytes"
	"context"
	"encoding/json"
	"fmt"
	"go/types"
	"os"
	"os/exec"
	"path/filepath"
	"sort"
	"strconv"
	"strings"
	"time"
)

// ---------- S-expressions ----------

type sx struct {
	atom string
	list []*sx
}

func parseSx(s string) []*sx {
	var out []*sx
	i := 0
	var parse func() *sx
	skip := func() {
		for i < len(s) && (s[i] == ' ' || s[i] == '\n' || s[i] == '\t' || s[i] == '\r') {
			i++
		}
	}
	parse = func() *sx {
		skip()
		if i >= len(s) {
			return nil
		}
		if s[i] == '(' {
			i++
			n := &sx{list: []*sx{}}
			for {
				skip()
				if i >= len(s) {
					return n
				}
				if s[i] == ')' {
					i++
					return n
				}
				c := parse()
				if c == nil {
					return n
				}
				n.list = append(n.list, c)
			}
		}
		j := i
		if s[i] == '|' {
			j = i + 1
			for j < len(s) && s[j] != '|' {
				j++
			}
			j++
		} else if s[i] == '"' {
			j = i + 1
			for j < len(s) && s[j] != '"' {
				j++
			}
			j++
		} else {
			for j < len(s) && s[j] != ' ' && s[j] != '\n' && s[j] != '(' && s[j] != ')' && s[j] != '\t' {
				j++
			}
		}
		a := s[i:j]
		i = j
		return &sx{atom: a}
	}
	for {
		n := parse()
		if n == nil {
			break
		}
		out = append(out, n)
	}
	return out
}

func (n *sx) String() string {
	if n.list == nil {
		return n.atom
	}
	var parts []string
	for _, c := range n.list {
		parts = append(parts, c.String())
	}
	return "(" + strings.Join(parts, " ") + ")"
}

func sxInt(n *sx) (int64, bool) {
	if n.list == nil {
		v, err := strconv.ParseInt(n.atom, 10, 64)
		return v, err == nil
	}
	if len(n.list) == 2 && n.list[0].atom == "-" {
		v, ok := sxInt(n.list[1])
		return -v, ok
	}
	return 0, false
}

// getValues asks z3 for the values of the given terms in a model of the
// failed obligation (plus extra constraints).
func (ck *Check) getValues(x *Exec, vc *VC, extra []string, terms []string) (map[string]*sx, bool) {
	if len(terms) == 0 {
		return map[string]*sx{}, true
	}
	q := x.buildQuery(vc, append(x.lemmaFacts(vc), extra...), terms)
	work := filepath.Join(ck.Verif, ".work", fmt.Sprintf("%d-model", os.Getpid()))
	os.MkdirAll(work, 0o755)
	defer os.RemoveAll(work)
	st, out, _ := runSolver(solvers[0], work, "model", "(set-option :produce-models true)\n"+q, 10)
	if st != "sat" {
		return nil, false
	}
	rest := out[strings.Index(out, "\n")+1:]
	nodes := parseSx(rest)
	res := map[string]*sx{}
	if len(nodes) == 0 {
		return res, true
	}
	for _, pair := range nodes[0].list {
		if len(pair.list) == 2 {
			res[pair.list[0].String()] = pair.list[1]
		}
	}
	return res, true
}

func normSx(t string) string {
	ns := parseSx(t)
	if len(ns) == 0 {
		return t
	}
	return ns[0].String()
}

// modelDecoder reads a model of a failed obligation value by value, pinning
// what it has read so that successive solver calls stay within one model.
type modelDecoder struct {
	ck    *Check
	x     *Exec
	vc    *VC
	pins  []string
	calls int
	ok    bool
}

func (d *modelDecoder) get(terms ...Term) []*sx {
	if !d.ok || d.calls > 60 {
		d.ok = false
		return nil
	}
	d.calls++
	var ts []string
	for _, t := range terms {
		ts = append(ts, t.S)
	}
	vals, ok := d.ck.getValues(d.x, d.vc, d.pins, ts)
	if !ok {
		d.ok = false
		return nil
	}
	out := make([]*sx, len(terms))
	for i, t := range terms {
		out[i] = vals[normSx(t.S)]
		if out[i] == nil {
			d.ok = false
			return nil
		}
		if t.Sort == SInt || t.Sort == SBool {
			d.pins = append(d.pins, fmt.Sprintf("(= %s %s)", t.S, out[i].String()))
		}
	}
	return out
}

// goLit returns Go source for the model's value of term t of type ty.
func (d *modelDecoder) goLit(t Term, ty types.Type, depth int) (string, bool) {
	if depth > 4 {
		return "", false
	}
	P := d.x.P
	switch u := ty.Underlying().(type) {
	case *types.Basic:
		switch {
		case u.Info()&types.IsBoolean != 0:
			v := d.get(t)
			if v == nil {
				return "", false
			}
			return v[0].atom, true
		case u.Info()&types.IsInteger != 0:
			v := d.get(t)
			if v == nil {
				return "", false
			}
			n, ok := sxInt(v[0])
			if !ok {
				return "", false
			}
			return fmt.Sprintf("%s(%d)", types.TypeString(ty, func(p *types.Package) string { return p.Name() }), n), true
		case u.Info()&types.IsString != 0:
			v := d.get(StrLen(t))
			if v == nil {
				return "", false
			}
			n, ok := sxInt(v[0])
			if !ok || n > 4096 || n < 0 {
				return "", false
			}
			bs := make([]byte, n)
			var ts []Term
			for i := int64(0); i < n; i++ {
				ts = append(ts, StrByte(t, Int(i)))
			}
			if n > 0 {
				vs := d.get(ts...)
				if vs == nil {
					return "", false
				}
				for i := range vs {
					b, _ := sxInt(vs[i])
					bs[i] = byte(b)
				}
			}
			return strconv.Quote(string(bs)), true
		}
	case *types.Slice:
		v := d.get(SlLen(t))
		if v == nil {
			return "", false
		}
		n, ok := sxInt(v[0])
		if !ok || n > 64 || n < 0 {
			return "", false
		}
		tn := types.TypeString(ty, func(p *types.Package) string { return p.Name() })
		if n == 0 {
			return "(" + tn + ")(nil)", true
		}
		es := P.sortOf(u.Elem())
		if isStruct(u.Elem()) {
			return "", false
		}
		h := d.x.decls["H0!E!"+string(es)]
		if h == "" {
			d.x.declare("H0!E!"+string(es), heapSort("E!"+string(es), es))
		}
		heap := Term{sym("H0!E!" + string(es)), heapSort("E!"+string(es), es)}
		var parts []string
		for i := int64(0); i < n; i++ {
			et := Select(Select(heap, SlArr(t), Sort(fmt.Sprintf("(Array Int %s)", es))), Add(SlOff(t), Int(i)), es)
			lit, ok := d.goLit(et, u.Elem(), depth+1)
			if !ok {
				return "", false
			}
			parts = append(parts, lit)
		}
		return tn + "{" + strings.Join(parts, ", ") + "}", true
	case *types.Struct:
		si := P.structOf(ty)
		tn := types.TypeString(ty, func(p *types.Package) string { return p.Name() })
		var parts []string
		for i, f := range si.Fields {
			if f.Name == "_" || isArray(f.Ty) {
				continue
			}
			lit, ok := d.goLit(si.get(t, i), f.Ty, depth+1)
			if !ok {
				return "", false
			}
			parts = append(parts, f.Name+": "+lit)
		}
		return tn + "{" + strings.Join(parts, ", ") + "}", true
	}
	return "", false
}

// decodeModel extracts Go literals for the function's parameters.
func (ck *Check) decodeModel(x *Exec, r *Result) map[string]any {
	out := map[string]any{}
	d := &modelDecoder{ck: ck, x: x, vc: r.VC, ok: true}
	for _, p := range r.VC.Inputs {
		if p.V.Ty == nil || p.V.T.IsZero() {
			continue
		}
		d.ok = true
		if lit, ok := d.goLit(p.V.T, p.V.Ty, 0); ok {
			out[p.Name] = lit
		}
	}
	return out
}

// ---------- running tests against the real code through an overlay ----------

func goEnv() []string {
	return append(os.Environ(), "GOFLAGS=-mod=mod", "GOPROXY=off", "GOSUMDB=off", "GOTOOLCHAIN=local")
}

// runOverlayTest injects testSrc as an extra _test.go file of the package in
// pkgDir (relative to the repo) without writing to the repo, and runs it.
func (ck *Check) runOverlayTest(pkgDir, fileName, testSrc, runRe string, timeout time.Duration) (string, error) {
	work := filepath.Join(ck.Verif, ".work", fmt.Sprintf("%d-ov-%d", os.Getpid(), time.Now().UnixNano()))
	if err := os.MkdirAll(work, 0o755); err != nil {
		return "", err
	}
	defer os.RemoveAll(work)
	src := filepath.Join(work, fileName)
	if err := os.WriteFile(src, []byte(testSrc), 0o644); err != nil {
		return "", err
	}
	target := filepath.Join(ck.P.Repo, pkgDir, fileName)
	ov := map[string]any{"Replace": map[string]string{target: src}}
	ovb, _ := json.Marshal(ov)
	ovPath := filepath.Join(work, "overlay.json")
	os.WriteFile(ovPath, ovb, 0o644)
	ctx, cancel := context.WithTimeout(context.Background(), timeout+30*time.Second)
	defer cancel()
	pkgArg := "./" + pkgDir
	if pkgDir == "." || pkgDir == "" {
		pkgArg = "."
	}
	cmd := exec.CommandContext(ctx, "go", "test", "-overlay", ovPath, "-vet=off", "-v", "-count=1", "-timeout", timeout.String(), "-run", runRe, pkgArg)
	cmd.Dir = ck.P.Repo
	cmd.Env = append(goEnv(), "GOCACHE="+goCache(ck.Verif))
	var buf bytes.Buffer
	cmd.Stdout = &buf
	cmd.Stderr = &buf
	err := cmd.Run()
	return buf.String(), err
}

func goCache(verif string) string {
	if c := os.Getenv("GOCACHE"); c != "" {
		return c
	}
	home, _ := os.UserHomeDir()
	if home != "" {
		return filepath.Join(home, ".cache", "go-build")
	}
	return filepath.Join(verif, ".work", "gocache")
}

func pkgDirOf(P *Prog, pkg *types.Package) string {
	rel := strings.TrimPrefix(pkg.Path(), modulePath)
	rel = strings.TrimPrefix(rel, "/")
	if rel == "" {
		return "."
	}
	return rel
}

// replayOnRealCode calls the real function with the model's inputs.
// Returns (report, attempted, confirmed).
func (ck *Check) replayOnRealCode(x *Exec, r *Result, model map[string]any) (map[string]any, bool, bool) {
	fn := x.fn
	if fn == nil || fn.Parent() != nil {
		return nil, false, false
	}
	var args []string
	for _, p := range fn.Params {
		v, ok := model[p.Name()]
		if !ok {
			return nil, false, false
		}
		args = append(args, fmt.Sprint(v))
	}
	// strip the package qualifier of the function's own package (in-package test)
	for i := range args {
		args[i] = strings.ReplaceAll(args[i], x.pkg.Name()+".", "")
	}
	callee := fn.Name()
	if fn.Signature.Recv() != nil {
		if len(args) == 0 {
			return nil, false, false
		}
		callee = "(" + args[0] + ")." + fn.Name()
		args = args[1:]
	}
	pkg := x.pkg
	nres := fn.Signature.Results().Len()
	var lhs []string
	for i := 0; i < nres; i++ {
		lhs = append(lhs, fmt.Sprintf("r%d", i))
	}
	call := fmt.Sprintf("%s(%s)", callee, strings.Join(args, ", "))
	var body strings.Builder
	fmt.Fprintf(&body, "package %s\n\nimport (\n\t\"fmt\"\n\t\"testing\"\n)\n\nfunc TestGovcReplay(t *testing.T) {\n", pkg.Name())
	body.WriteString("\tdefer func() {\n\t\tif r := recover(); r != nil {\n\t\t\tfmt.Printf(\"GOVC-PANIC %v\\n\", r)\n\t\t}\n\t}()\n")
	if nres > 0 {
		fmt.Fprintf(&body, "\t%s := %s\n", strings.Join(lhs, ", "), call)
		for i := range lhs {
			fmt.Fprintf(&body, "\tfmt.Printf(\"GOVC-RESULT %d %%#v\\n\", r%d)\n", i, i)
		}
	} else {
		fmt.Fprintf(&body, "\t%s\n", call)
	}
	body.WriteString("\tfmt.Println(\"GOVC-DONE\")\n}\n")
	out, _ := ck.runOverlayTest(pkgDirOf(ck.P, pkg), "zz_govc_replay_test.go", body.String(), "^TestGovcReplay$", 60*time.Second)
	rep := map[string]any{"call": call}
	var lines []string
	confirmed := false
	for _, ln := range strings.Split(out, "\n") {
		if strings.HasPrefix(ln, "GOVC-") {
			lines = append(lines, ln)
			if strings.HasPrefix(ln, "GOVC-PANIC") {
				confirmed = true
			}
		}
	}
	if len(lines) == 0 {
		rep["raw_output"] = firstLines(out, 20)
	}
	rep["output"] = lines
	if r.VC.Kind != "safety" {
		// a functional obligation: outputs are recorded; the violation is
		// confirmed by re-evaluating the clause on them
		if ok, done := ck.groundRecheck(x, r, model, lines); done {
			confirmed = ok
			rep["ground_recheck"] = map[bool]string{true: "clause is violated by the real function's outputs", false: "clause holds on the real outputs (model was spurious)"}[ok]
		}
	}
	return rep, true, confirmed
}

// groundRecheck is filled in by groundcheck.go (concrete re-evaluation of the clause).
func (ck *Check) groundRecheck(x *Exec, r *Result, model map[string]any, lines []string) (violated bool, done bool) {
	return false, false
}

// ---------- data obligations (exhaustive execution over a finite domain) ----------

func (ck *Check) dataObligations() {
	P := ck.P
	byPkg := map[string][]*Contract{}
	for _, c := range P.Specs.Contracts {
		if c.ByExec && hasProp(c, ck.Prop) {
			byPkg[c.Pkg] = append(byPkg[c.Pkg], c)
		}
	}
	var pkgs []string
	for p := range byPkg {
		pkgs = append(pkgs, p)
	}
	sort.Strings(pkgs)
	for _, pn := range pkgs {
		cs := byPkg[pn]
		sort.Slice(cs, func(i, j int) bool { return cs[i].Fn < cs[j].Fn })
		sp := P.findPkg(pn)
		if sp == nil {
			ck.engineErr = append(ck.engineErr, "byexec: package "+pn+" not found")
			continue
		}
		var body strings.Builder
		fmt.Fprintf(&body, "package %s\n\nimport (\n\t\"fmt\"\n\t\"testing\"\n)\n\nfunc TestGovcData(t *testing.T) {\n", pn)
		for _, c := range cs {
			f := P.Funcs[c.Fn]
			if f == nil || len(f.Params) != 1 {
				ck.engineErr = append(ck.engineErr, "byexec: "+c.Fn+" must take one byte parameter")
				continue
			}
			fmt.Fprintf(&body, "\tfor b := 0; b < 256; b++ {\n\t\tfmt.Printf(\"GOVC-DATA %s %%d %%v\\n\", b, %s(byte(b)))\n\t}\n", c.Fn, f.Name())
		}
		body.WriteString("}\n")
		out, err := ck.runOverlayTest(pkgDirOf(P, sp.Pkg), "zz_govc_data_test.go", body.String(), "^TestGovcData$", 60*time.Second)
		obs := map[string]map[int]string{}
		for _, ln := range strings.Split(out, "\n") {
			f := strings.Fields(ln)
			if len(f) == 4 && f[0] == "GOVC-DATA" {
				b, _ := strconv.Atoi(f[2])
				if obs[f[1]] == nil {
					obs[f[1]] = map[int]string{}
				}
				obs[f[1]][b] = f[3]
			}
		}
		for _, c := range cs {
			f := P.Funcs[c.Fn]
			d := map[string]any{"name": "data/" + c.Fn, "kind": "exhaustive execution of the real function over all 256 byte values, compared with the contract's definition by the solver", "clause": c.Ensures[0].Src}
			if len(obs[c.Fn]) != 256 {
				d["ok"] = false
				d["error"] = fmt.Sprintf("expected 256 observations, got %d (%v) %s", len(obs[c.Fn]), err, firstLines(out, 10))
				ck.dataObl = append(ck.dataObl, d)
				continue
			}
			x := NewExec(P, f, c)
			st := &State{heaps: map[string]Term{}, names: map[string]Val{}, entry: &Snapshot{heaps: map[string]Term{}, names: map[string]Val{}}}
			var bad []int
			var conj []Term
			ok := true
			func() {
				defer func() {
					if r := recover(); r != nil {
						ok = false
						d["error"] = fmt.Sprint(r)
					}
				}()
				for b := 0; b < 256; b++ {
					env := &Env{x: x, st: st, vars: map[string]Val{f.Params[0].Name(): {T: Int(int64(b)), Ty: tyByte}}, pkg: x.pkg}
					var res Val
					switch obs[c.Fn][b] {
					case "true":
						res = Val{T: True, Ty: tyBool}
					case "false":
						res = Val{T: False, Ty: tyBool}
					default:
						n, _ := strconv.ParseInt(obs[c.Fn][b], 10, 64)
						res = Val{T: Int(n), Ty: tyInt}
					}
					env.vars["result"] = res
					t := x.trBool(env, c.Ensures[0].E)
					if t.S == "false" {
						bad = append(bad, b)
					}
					conj = append(conj, t)
				}
			}()
			if ok && len(bad) == 0 {
				vc := &VC{Name: "data/" + c.Fn, Fn: c.Fn, Kind: "data", Goal: And(conj...)}
				if vc.Goal.S != "true" {
					work := filepath.Join(ck.Verif, ".work", fmt.Sprint(os.Getpid()))
					os.MkdirAll(work, 0o755)
					r := (&Runner{Dir: work, TimeoutS: 10}).Discharge(x, vc)
					os.RemoveAll(work)
					ok = r.Status == "unsat"
				}
			}
			if len(bad) > 0 {
				ok = false
				d["failing_inputs"] = bad
			}
			d["ok"] = ok
			d["inputs"] = 256
			ck.dataObl = append(ck.dataObl, d)
		}
	}
}
