package main

import (
	"bytes"
	"context"
	"encoding/json"
	"fmt"
	"go/types"
	"os"
	"os/exec"
	"path/filepath"
	"sort"
	"strconv"
	"strings"
	"time"
)

// ---------- S-expressions ----------

type sx struct {
	atom string
	list []*sx
}

func parseSx(s string) []*sx {
	var out []*sx
	i := 0
	var parse func() *sx
	skip := func() {
		for i < len(s) && (s[i] == ' ' || s[i] == '\n' || s[i] == '\t' || s[i] == '\r') {
			i++
		}
	}
	parse = func() *sx {
		skip()
		if i >= len(s) {
			return nil
		}
		if s[i] == '(' {
			i++
			n := &sx{list: []*sx{}}
			for {
				skip()
				if i >= len(s) {
					return n
				}
				if s[i] == ')' {
					i++
					return n
				}
				c := parse()
				if c == nil {
					return n
				}
				n.list = append(n.list, c)
			}
		}
		j := i
		if s[i] == '|' {
			j = i + 1
			for j < len(s) && s[j] != '|' {
				j++
			}
			j++
		} else if s[i] == '"' {
			j = i + 1
			for j < len(s) && s[j] != '"' {
				j++
			}
			j++
		} else {
			for j < len(s) && s[j] != ' ' && s[j] != '\n' && s[j] != '(' && s[j] != ')' && s[j] != '\t' {
				j++
			}
		}
		a := s[i:j]
		i = j
		return &sx{atom: a}
	}
	for {
		n := parse()
		if n == nil {
			break
		}
		out = append(out, n)
	}
	return out
}

func (n *sx) String() string {
	if n.list == nil {
		return n.atom
	}
	var parts []string
	for _, c := range n.list {
		parts = append(parts, c.String())
	}
	return "(" + strings.Join(parts, " ") + ")"
}

func sxInt(n *sx) (int64, bool) {
	if n.list == nil {
		v, err := strconv.ParseInt(n.atom, 10, 64)
		return v, err == nil
	}
	if len(n.list) == 2 && n.list[0].atom == "-" {
		v, ok := sxInt(n.list[1])
		return -v, ok
	}
	return 0, false
}

// getValues asks z3 for the values of the given terms in a model of the
// failed obligation (plus extra constraints).
func (ck *Check) getValues(x *Exec, vc *VC, extra []string, terms []string) (map[string]*sx, bool) {
	if len(terms) == 0 {
		return map[string]*sx{}, true
	}
	q := x.buildQuery(vc, append(x.lemmaFacts(vc), extra...), terms)
	work := filepath.Join(ck.Verif, ".work", fmt.Sprintf("%d-model", os.Getpid()))
	os.MkdirAll(work, 0o755)
	defer os.RemoveAll(work)
	st, out, _ := runSolver(solvers[0], work, "model", "(set-option :produce-models true)\n"+q, 10)
	if st != "sat" {
		return nil, false
	}
	rest := out[strings.Index(out, "\n")+1:]
	nodes := parseSx(rest)
	res := map[string]*sx{}
	if len(nodes) == 0 {
		return res, true
	}
	for _, pair := range nodes[0].list {
		if len(pair.list) == 2 {
			res[pair.list[0].String()] = pair.list[1]
		}
	}
	return res, true
}

func normSx(t string) string {
	ns := parseSx(t)
	if len(ns) == 0 {
		return t
	}
	return ns[0].String()
}

// decodeModel extracts Go values for the function's parameters.
func (ck *Check) decodeModel(x *Exec, r *Result) map[string]any {
	out := map[string]any{}
	vc := r.VC
	var terms []string
	for _, p := range vc.Inputs {
		switch p.V.T.Sort {
		case SInt, SBool:
			terms = append(terms, p.V.T.S)
		case SStr:
			terms = append(terms, StrLen(p.V.T).S)
		case SSlice:
			terms = append(terms, SlLen(p.V.T).S)
		}
	}
	vals, ok := ck.getValues(x, vc, nil, terms)
	if !ok {
		return out
	}
	var pins []string
	var terms2 []string
	type strReq struct {
		key  string
		term Term
		n    int64
	}
	var reqs []strReq
	for _, p := range vc.Inputs {
		switch p.V.T.Sort {
		case SInt:
			if v, ok := sxInt(vals[normSx(p.V.T.S)]); ok {
				out[p.Name] = v
				pins = append(pins, Eq(p.V.T, Int(v)).S)
			}
		case SBool:
			if v := vals[normSx(p.V.T.S)]; v != nil {
				out[p.Name] = v.atom == "true"
				pins = append(pins, Eq(p.V.T, Bool(v.atom == "true")).S)
			}
		case SStr:
			if n, ok := sxInt(vals[normSx(StrLen(p.V.T).S)]); ok {
				pins = append(pins, Eq(StrLen(p.V.T), Int(n)).S)
				if n > 2048 {
					out[p.Name] = fmt.Sprintf("<string of length %d>", n)
					continue
				}
				reqs = append(reqs, strReq{p.Name, p.V.T, n})
				for i := int64(0); i < n; i++ {
					terms2 = append(terms2, StrByte(p.V.T, Int(i)).S)
				}
			}
		case SSlice:
			if n, ok := sxInt(vals[normSx(SlLen(p.V.T).S)]); ok {
				pins = append(pins, Eq(SlLen(p.V.T), Int(n)).S)
				out[p.Name+".len"] = n
			}
		}
	}
	vals2, ok := ck.getValues(x, vc, pins, terms2)
	if ok {
		for _, rq := range reqs {
			bs := make([]byte, rq.n)
			for i := int64(0); i < rq.n; i++ {
				if v, ok := sxInt(vals2[normSx(StrByte(rq.term, Int(i)).S)]); ok {
					bs[i] = byte(v)
				}
			}
			out[rq.key] = string(bs)
		}
	}
	return out
}

// ---------- running tests against the real code through an overlay ----------

func goEnv() []string {
	return append(os.Environ(), "GOFLAGS=-mod=mod", "GOPROXY=off", "GOSUMDB=off", "GOTOOLCHAIN=local")
}

// runOverlayTest injects testSrc as an extra _test.go file of the package in
// pkgDir (relative to the repo) without writing to the repo, and runs it.
func (ck *Check) runOverlayTest(pkgDir, fileName, testSrc, runRe string, timeout time.Duration) (string, error) {
	work := filepath.Join(ck.Verif, ".work", fmt.Sprintf("%d-ov-%d", os.Getpid(), time.Now().UnixNano()))
	if err := os.MkdirAll(work, 0o755); err != nil {
		return "", err
	}
	defer os.RemoveAll(work)
	src := filepath.Join(work, fileName)
	if err := os.WriteFile(src, []byte(testSrc), 0o644); err != nil {
		return "", err
	}
	target := filepath.Join(ck.P.Repo, pkgDir, fileName)
	ov := map[string]any{"Replace": map[string]string{target: src}}
	ovb, _ := json.Marshal(ov)
	ovPath := filepath.Join(work, "overlay.json")
	os.WriteFile(ovPath, ovb, 0o644)
	ctx, cancel := context.WithTimeout(context.Background(), timeout+30*time.Second)
	defer cancel()
	pkgArg := "./" + pkgDir
	if pkgDir == "." || pkgDir == "" {
		pkgArg = "."
	}
	cmd := exec.CommandContext(ctx, "go", "test", "-overlay", ovPath, "-vet=off", "-v", "-count=1", "-timeout", timeout.String(), "-run", runRe, pkgArg)
	cmd.Dir = ck.P.Repo
	cmd.Env = append(goEnv(), "GOCACHE="+goCache(ck.Verif))
	var buf bytes.Buffer
	cmd.Stdout = &buf
	cmd.Stderr = &buf
	err := cmd.Run()
	return buf.String(), err
}

func goCache(verif string) string {
	if c := os.Getenv("GOCACHE"); c != "" {
		return c
	}
	home, _ := os.UserHomeDir()
	if home != "" {
		return filepath.Join(home, ".cache", "go-build")
	}
	return filepath.Join(verif, ".work", "gocache")
}

func pkgDirOf(P *Prog, pkg *types.Package) string {
	rel := strings.TrimPrefix(pkg.Path(), modulePath)
	rel = strings.TrimPrefix(rel, "/")
	if rel == "" {
		return "."
	}
	return rel
}

// replayOnRealCode calls the real function with the model's inputs.
// Returns (report, attempted, confirmed).
func (ck *Check) replayOnRealCode(x *Exec, r *Result, model map[string]any) (map[string]any, bool, bool) {
	fn := x.fn
	if fn == nil || fn.Signature.Recv() != nil || fn.Parent() != nil {
		return nil, false, false
	}
	var args []string
	for _, p := range fn.Params {
		v, ok := model[p.Name()]
		if !ok {
			return nil, false, false
		}
		switch t := p.Type().Underlying().(type) {
		case *types.Basic:
			switch {
			case t.Info()&types.IsString != 0:
				s, ok := v.(string)
				if !ok {
					return nil, false, false
				}
				args = append(args, strconv.Quote(s))
			case t.Info()&types.IsInteger != 0:
				args = append(args, fmt.Sprintf("%s(%v)", t.Name(), v))
			case t.Info()&types.IsBoolean != 0:
				args = append(args, fmt.Sprint(v))
			default:
				return nil, false, false
			}
		default:
			return nil, false, false
		}
	}
	pkg := x.pkg
	nres := fn.Signature.Results().Len()
	var lhs []string
	for i := 0; i < nres; i++ {
		lhs = append(lhs, fmt.Sprintf("r%d", i))
	}
	call := fmt.Sprintf("%s(%s)", fn.Name(), strings.Join(args, ", "))
	var body strings.Builder
	fmt.Fprintf(&body, "package %s\n\nimport (\n\t\"fmt\"\n\t\"testing\"\n)\n\nfunc TestGovcReplay(t *testing.T) {\n", pkg.Name())
	body.WriteString("\tdefer func() {\n\t\tif r := recover(); r != nil {\n\t\t\tfmt.Printf(\"GOVC-PANIC %v\\n\", r)\n\t\t}\n\t}()\n")
	if nres > 0 {
		fmt.Fprintf(&body, "\t%s := %s\n", strings.Join(lhs, ", "), call)
		for i := range lhs {
			fmt.Fprintf(&body, "\tfmt.Printf(\"GOVC-RESULT %d %%#v\\n\", r%d)\n", i, i)
		}
	} else {
		fmt.Fprintf(&body, "\t%s\n", call)
	}
	body.WriteString("\tfmt.Println(\"GOVC-DONE\")\n}\n")
	out, _ := ck.runOverlayTest(pkgDirOf(ck.P, pkg), "zz_govc_replay_test.go", body.String(), "^TestGovcReplay$", 60*time.Second)
	rep := map[string]any{"call": call}
	var lines []string
	confirmed := false
	for _, ln := range strings.Split(out, "\n") {
		if strings.HasPrefix(ln, "GOVC-") {
			lines = append(lines, ln)
			if strings.HasPrefix(ln, "GOVC-PANIC") {
				confirmed = true
			}
		}
	}
	if len(lines) == 0 {
		rep["raw_output"] = firstLines(out, 20)
	}
	rep["output"] = lines
	if r.VC.Kind != "safety" {
		// a functional obligation: outputs are recorded; the violation is
		// confirmed by re-evaluating the clause on them
		if ok, done := ck.groundRecheck(x, r, model, lines); done {
			confirmed = ok
			rep["ground_recheck"] = map[bool]string{true: "clause is violated by the real function's outputs", false: "clause holds on the real outputs (model was spurious)"}[ok]
		}
	}
	return rep, true, confirmed
}

// groundRecheck is filled in by groundcheck.go (concrete re-evaluation of the clause).
func (ck *Check) groundRecheck(x *Exec, r *Result, model map[string]any, lines []string) (violated bool, done bool) {
	return false, false
}

// ---------- data obligations (exhaustive execution over a finite domain) ----------

func (ck *Check) dataObligations() {
	P := ck.P
	byPkg := map[string][]*Contract{}
	for _, c := range P.Specs.Contracts {
		if c.ByExec && hasProp(c, ck.Prop) {
			byPkg[c.Pkg] = append(byPkg[c.Pkg], c)
		}
	}
	var pkgs []string
	for p := range byPkg {
		pkgs = append(pkgs, p)
	}
	sort.Strings(pkgs)
	for _, pn := range pkgs {
		cs := byPkg[pn]
		sort.Slice(cs, func(i, j int) bool { return cs[i].Fn < cs[j].Fn })
		sp := P.findPkg(pn)
		if sp == nil {
			ck.engineErr = append(ck.engineErr, "byexec: package "+pn+" not found")
			continue
		}
		var body strings.Builder
		fmt.Fprintf(&body, "package %s\n\nimport (\n\t\"fmt\"\n\t\"testing\"\n)\n\nfunc TestGovcData(t *testing.T) {\n", pn)
		for _, c := range cs {
			f := P.Funcs[c.Fn]
			if f == nil || len(f.Params) != 1 {
				ck.engineErr = append(ck.engineErr, "byexec: "+c.Fn+" must take one byte parameter")
				continue
			}
			fmt.Fprintf(&body, "\tfor b := 0; b < 256; b++ {\n\t\tfmt.Printf(\"GOVC-DATA %s %%d %%v\\n\", b, %s(byte(b)))\n\t}\n", c.Fn, f.Name())
		}
		body.WriteString("}\n")
		out, err := ck.runOverlayTest(pkgDirOf(P, sp.Pkg), "zz_govc_data_test.go", body.String(), "^TestGovcData$", 60*time.Second)
		obs := map[string]map[int]string{}
		for _, ln := range strings.Split(out, "\n") {
			f := strings.Fields(ln)
			if len(f) == 4 && f[0] == "GOVC-DATA" {
				b, _ := strconv.Atoi(f[2])
				if obs[f[1]] == nil {
					obs[f[1]] = map[int]string{}
				}
				obs[f[1]][b] = f[3]
			}
		}
		for _, c := range cs {
			f := P.Funcs[c.Fn]
			d := map[string]any{"name": "data/" + c.Fn, "kind": "exhaustive execution of the real function over all 256 byte values, compared with the contract's definition by the solver", "clause": c.Ensures[0].Src}
			if len(obs[c.Fn]) != 256 {
				d["ok"] = false
				d["error"] = fmt.Sprintf("expected 256 observations, got %d (%v) %s", len(obs[c.Fn]), err, firstLines(out, 10))
				ck.dataObl = append(ck.dataObl, d)
				continue
			}
			x := NewExec(P, f, c)
			st := &State{heaps: map[string]Term{}, names: map[string]Val{}, entry: &Snapshot{heaps: map[string]Term{}, names: map[string]Val{}}}
			var bad []int
			var conj []Term
			ok := true
			func() {
				defer func() {
					if r := recover(); r != nil {
						ok = false
						d["error"] = fmt.Sprint(r)
					}
				}()
				for b := 0; b < 256; b++ {
					env := &Env{x: x, st: st, vars: map[string]Val{f.Params[0].Name(): {T: Int(int64(b)), Ty: tyByte}}, pkg: x.pkg}
					var res Val
					switch obs[c.Fn][b] {
					case "true":
						res = Val{T: True, Ty: tyBool}
					case "false":
						res = Val{T: False, Ty: tyBool}
					default:
						n, _ := strconv.ParseInt(obs[c.Fn][b], 10, 64)
						res = Val{T: Int(n), Ty: tyInt}
					}
					env.vars["result"] = res
					t := x.trBool(env, c.Ensures[0].E)
					if t.S == "false" {
						bad = append(bad, b)
					}
					conj = append(conj, t)
				}
			}()
			if ok && len(bad) == 0 {
				vc := &VC{Name: "data/" + c.Fn, Fn: c.Fn, Kind: "data", Goal: And(conj...)}
				if vc.Goal.S != "true" {
					work := filepath.Join(ck.Verif, ".work", fmt.Sprint(os.Getpid()))
					os.MkdirAll(work, 0o755)
					r := (&Runner{Dir: work, TimeoutS: 10}).Discharge(x, vc)
					os.RemoveAll(work)
					ok = r.Status == "unsat"
				}
			}
			if len(bad) > 0 {
				ok = false
				d["failing_inputs"] = bad
			}
			d["ok"] = ok
			d["inputs"] = 256
			ck.dataObl = append(ck.dataObl, d)
		}
	}
}
