package main

import (
	"encoding/json"
	"fmt"
	"os"
	"path/filepath"
	"regexp"
	"sort"
	"strings"
	"time"
)

// propChecks maps a property id to its check procedure.
var propChecks = map[string]func(*Check) int{}

func init() {
	for _, p := range []string{"C01", "C02", "C03", "C04", "C05", "C06", "C08", "C09", "C11", "C13", "C14", "C15", "C16", "C17", "C18"} {
		propChecks[p] = proofCheck
	}
}

type KnownFinding struct {
	Property   string `json:"property"`
	Obligation string `json:"obligation"`
	What       string `json:"what"`
	Status     string `json:"status"` // known | fixed
	Commit     string `json:"commit,omitempty"`
}

func loadKnown(verif string) []KnownFinding {
	var out struct {
		Findings []KnownFinding `json:"findings"`
	}
	b, err := os.ReadFile(filepath.Join(verif, "known_findings.json"))
	if err != nil {
		return nil
	}
	json.Unmarshal(b, &out)
	return out.Findings
}

func hasProp(c *Contract, p string) bool {
	for _, q := range c.Props {
		if q == p {
			return true
		}
	}
	return false
}

var unsafeName = regexp.MustCompile(`[^A-Za-z0-9_.-]+`)

// proofCheck: the generic contract-verification check.
func proofCheck(ck *Check) int {
	P := ck.P
	ck.assume = map[string]bool{}
	ck.unmerged = unmergedProps[ck.Prop]
	ck.verifyFunctions(func(c *Contract) bool { return hasProp(c, ck.Prop) && !c.ByExec })
	ck.unmerged = false
	ck.proveLemmas()
	ck.dataObligations()
	ck.findingCanaries()
	if f, ok := extraChecks[ck.Prop]; ok {
		f(ck)
	}
	// A property assembled from others re-discharges their obligations as part
	// of its own check (a change that breaks one of the parts breaks the whole).
	own := ck.Prop
	seenFn := map[string]bool{}
	for _, x := range ck.execs {
		seenFn[x.fname] = true
	}
	for _, q := range includes[own] {
		ck.Prop = q
		ck.verifyFunctions(func(c *Contract) bool {
			// a function already verified above had its q-tagged clauses skipped: redo it for q
			return hasProp(c, q) && !c.ByExec
		})
		ck.proveLemmas()
		ck.dataObligations()
		if q == "C01" {
			ck.runTreeStandIn(own)
		}
	}
	ck.Prop = own
	if own == "C02" {
		failing := false
		for _, r := range ck.results {
			if r.Status != "unsat" {
				failing = true
			}
		}
		for _, d := range ck.bounded {
			if d["ok"] != true {
				failing = true
			}
		}
		if failing || ck.Tier == "thorough" {
			ck.runConcreteSearch(failing, "C02", "c02_browser_test.go", "^TestGovcC02$",
				"configurations x browser intents (origin, method, header-name subsets, credentials mode, PNA) x debug x tolerated ACRH perturbations; browser side = transcription of Fetch's CORS-preflight fetch and CORS check, meaning side = the statement of C02 evaluated on the Config as written")
		}
	}
	if len(includes[own]) > 0 {
		if ck.extraCov == nil {
			ck.extraCov = map[string]any{}
		}
		ck.extraCov["includes_obligations_of"] = includes[own]
	}
	_ = P
	ck.dischargeCovers()
	return ck.finish("proof")
}

// unmergedProps: properties whose own clauses are checked path by path (no
// state merging in inlined helpers): many small conjunctive VCs instead of few
// VCs with guarded disjunctions, which the solvers did not decide for C02.
var unmergedProps = map[string]bool{"C02": true}

// includes: properties whose obligations are part of another property's check.
var includes = map[string][]string{
	// C02 (browser verdict == configuration meaning) is assembled from the handler clauses proved under C02
	// and from: the compiled configuration means what was written (C15), origin membership (C01),
	// headers.Check == Approved (C14), response shape (C03), debug invariance (C09), failure uniformity (C16)
	"C02": {"C15", "C14", "C01", "C03", "C09", "C16"},
}

var extraChecks = map[string]func(*Check){}

// at most this many failed solver obligations get a replay file and a VIOLATION line each
const maxViolationLines = 25

func (ck *Check) finish(level string) int {
	known := loadKnown(ck.Verif)
	isKnown := func(name string) *KnownFinding {
		for i := range known {
			k := &known[i]
			if k.Property == ck.Prop && k.Status == "known" && k.Obligation == name {
				return k
			}
		}
		return nil
	}
	replayDir := filepath.Join(ck.outDir(), "replays", ck.Prop)
	os.RemoveAll(replayDir)
	obligations, discharged := 0, 0
	byBackend := map[string]int{}
	solverS := 0.0
	var samples []any
	fnSet := map[string]bool{}
	violations := 0
	knownSeen := map[string]bool{}
	var failed []map[string]any
	for _, r := range ck.results {
		obligations++
		solverS += r.Seconds
		fnSet[r.VC.Fn] = true
		if r.Status == "unsat" {
			discharged++
			byBackend[r.Solver]++
			if len(samples) < 4 && (r.VC.Kind == "ensures" || r.VC.Kind == "invariant") {
				samples = append(samples, map[string]any{"obligation": r.VC.Name, "kind": r.VC.Kind, "clause": r.VC.Src, "path": r.VC.Trace, "verdict": "unsat", "backend": r.Solver, "seconds": r.Seconds})
			}
			continue
		}
		if r.Status == "error" {
			ck.engineErr = append(ck.engineErr, fmt.Sprintf("%s: solver error: %s", r.VC.Name, firstLines(r.Output, 3)))
			continue
		}
		if k := isKnown(r.VC.Name); k != nil {
			if !knownSeen[k.Obligation] {
				fmt.Printf("KNOWN-FINDING: property=%s %s\n", ck.Prop, k.What)
				knownSeen[k.Obligation] = true
			}
			ck.known = append(ck.known, r.VC.Name)
			continue
		}
		violations++
		if violations > maxViolationLines {
			// the first lines name the violation; the rest are listed in the evidence file
			failed = append(failed, map[string]any{"obligation": r.VC.Name, "status": r.Status, "clause": r.VC.Src, "pos": r.VC.Pos})
			continue
		}
		path, confirmed := ck.writeReplay(replayDir, r)
		suffix := ""
		if !confirmed {
			suffix = " no-failing-input-found"
		}
		fmt.Printf("VIOLATION property=%s replay=%s%s\n", ck.Prop, path, suffix)
		failed = append(failed, map[string]any{"obligation": r.VC.Name, "status": r.Status, "clause": r.VC.Src, "pos": r.VC.Pos, "replay": path})
	}
	{
		rs := append([]*Result(nil), ck.results...)
		sort.Slice(rs, func(i, j int) bool { return rs[i].Seconds > rs[j].Seconds })
		var slow []any
		for i := 0; i < len(rs) && i < 5; i++ {
			slow = append(slow, map[string]any{"obligation": rs[i].VC.Name, "path": rs[i].VC.Trace, "seconds": round2(rs[i].Seconds), "tried": rs[i].Tried})
		}
		if ck.extraCov == nil {
			ck.extraCov = map[string]any{}
		}
		ck.extraCov["slowest_obligations"] = slow
	}
	for _, d := range ck.dataObl {
		obligations++
		if d["ok"] == true {
			discharged++
			byBackend["exec"]++
		} else {
			violations++
			path := ck.writeSimpleReplay(replayDir, fmt.Sprint(d["name"]), d)
			fmt.Printf("VIOLATION property=%s replay=%s\n", ck.Prop, path)
		}
	}
	for _, d := range ck.flowObl {
		obligations++
		if d["ok"] == true {
			discharged++
			byBackend["ssa-flow"]++
		} else {
			violations++
			path := ck.writeSimpleReplay(replayDir, fmt.Sprint(d["name"]), d)
			fmt.Printf("VIOLATION property=%s replay=%s no-failing-input-found\n", ck.Prop, path)
		}
	}
	for _, b := range ck.bounded {
		if b["ok"] != true {
			violations++
			path := ck.writeSimpleReplay(replayDir, fmt.Sprint(b["name"]), b)
			fmt.Printf("VIOLATION property=%s replay=%s\n", ck.Prop, path)
		}
	}
	for _, e := range ck.outOfSub {
		// A function under contract that can no longer be translated leaves all
		// of its obligations undecided. On the unchanged tree this never happens
		// (every function under contract is in the subset); after a change it is
		// reported like any other obligation that used to be discharged.
		violations++
		obligations++
		name := "in-subset/" + strings.SplitN(e, ":", 2)[0]
		path := ck.writeSimpleReplay(replayDir, name, map[string]any{"property": ck.Prop, "obligation": name, "kind": "subset",
			"solver_status": "undecided", "reason": e,
			"explanation": "the function left the subset govc can translate, so none of its obligations could be generated; no counterexample is available"})
		fmt.Printf("VIOLATION property=%s replay=%s no-failing-input-found\n", ck.Prop, path)
	}
	var fns []string
	for f := range fnSet {
		fns = append(fns, f)
	}
	sort.Strings(fns)
	assume := map[string]bool{}
	for _, x := range ck.execs {
		for a := range x.trusted {
			assume[a] = true
		}
	}
	for a := range ck.assume {
		assume[a] = true
	}
	for _, a := range baseAssumptions {
		assume[a] = true
	}
	trusted := sortedKeys(assume)
	if len(samples) == 0 && len(ck.results) > 0 {
		r := ck.results[0]
		samples = append(samples, map[string]any{"obligation": r.VC.Name, "kind": r.VC.Kind, "clause": r.VC.Src, "verdict": r.Status})
	}
	for _, d := range ck.dataObl {
		if len(samples) < 6 {
			samples = append(samples, d)
		}
	}
	for _, d := range ck.flowObl {
		if len(samples) < 4 {
			samples = append(samples, d)
		}
	}
	for _, d := range ck.bounded {
		if len(samples) < 6 {
			samples = append(samples, d)
		}
	}
	if samples == nil {
		samples = []any{}
	}
	cov := map[string]any{
		"obligations":              obligations,
		"discharged":               discharged,
		"checker_cmd":              fmt.Sprintf("./bin/govc check --property %s --tier %s", ck.Prop, ck.Tier),
		"trusted_base":             trusted,
		"functions_under_contract": fns,
		"by_backend":               byBackend,
		"solver_s":                 round2(solverS),
		"samples":                  samples,
		"bounded":                  ck.bounded,
		"data_obligations":         len(ck.dataObl),
		"flow_obligations":         ck.flowObl,
		"known_findings_hit":       ck.known,
		"failed":                   failed,
		"engine_errors":            ck.engineErr,
		"integers":                 "mathematical Int with an overflow obligation on every 64-bit + - * and exact modular semantics for narrower types (DESIGN §2.2)",
	}
	if level != "proof" {
		cov["explanation"] = ck.explanation
	}
	if ck.extraCov != nil {
		for k, v := range ck.extraCov {
			cov[k] = v
		}
	}
	ev := Evidence{PropertyID: ck.Prop, Tier: ck.Tier, Seed: seedFromEnv(), Level: level, Coverage: cov, Assumptions: trusted,
		WallS: round2(time.Since(ck.T0).Seconds()), Violations: violations}
	if err := writeJSON(filepath.Join(ck.outDir(), "evidence", ck.Prop+".json"), ev); err != nil {
		fmt.Fprintln(os.Stderr, "engine error: evidence:", err)
		return 2
	}
	fmt.Printf("%s %s: %d obligations, %d discharged, %d violations, %d known, %.1fs\n", ck.Prop, ck.Tier, obligations, discharged, violations, len(ck.known), time.Since(ck.T0).Seconds())
	if violations > 0 {
		return 1
	}
	if len(ck.engineErr) > 0 {
		for _, e := range ck.engineErr {
			fmt.Fprintln(os.Stderr, "engine error:", e)
		}
		return 2
	}
	if obligations == 0 {
		fmt.Fprintln(os.Stderr, "engine error: no obligations generated (vacuous check)")
		return 2
	}
	return 0
}

var baseAssumptions = []string{
	"go/ssa (x/tools v0.29.0) translates the Go source faithfully; govc's symbolic execution and heap encoding (DESIGN §2) are sound",
	"z3 5.1.0 / z3 4.8.12 / cvc5 1.0.3 answer unsat only for unsatisfiable queries",
	"termination is proved only for loops with a decreases clause; memory exhaustion is not modelled",
	"package-level variables are never written after initialisation (checked syntactically for the module: no Store to a global outside init)",
}

func seedFromEnv() int {
	var n int
	fmt.Sscan(os.Getenv("VERIF_SEED"), &n)
	return n
}

func round2(f float64) float64 { return float64(int(f*100+0.5)) / 100 }

func firstLines(s string, n int) string {
	ls := strings.Split(strings.TrimSpace(s), "\n")
	if len(ls) > n {
		ls = ls[:n]
	}
	return strings.Join(ls, " | ")
}

func (ck *Check) writeSimpleReplay(dir, name string, v any) string {
	os.MkdirAll(dir, 0o755)
	p := filepath.Join(dir, unsafeName.ReplaceAllString(name, "_")+".json")
	writeJSON(p, v)
	return p
}

// writeReplay records a failed obligation; when the solver produced a model it
// is decoded and replayed against the real code.
func (ck *Check) writeReplay(dir string, r *Result) (string, bool) {
	os.MkdirAll(dir, 0o755)
	p := filepath.Join(dir, unsafeName.ReplaceAllString(r.VC.Name, "_")+"__"+unsafeName.ReplaceAllString(r.VC.Trace, "_")+".json")
	if len(p) > 240 {
		p = p[:230] + ".json"
	}
	rep := map[string]any{
		"property":      ck.Prop,
		"obligation":    r.VC.Name,
		"kind":          r.VC.Kind,
		"clause":        r.VC.Src,
		"position":      r.VC.Pos,
		"path":          r.VC.Trace,
		"solver_status": r.Status,
		"solvers_tried": r.Tried,
		"solver_output": firstLines(r.Output, 40),
	}
	confirmed := false
	if r.Status == "sat" {
		var x *Exec
		for _, e := range ck.execs {
			if e.fname == r.VC.Fn {
				x = e
			}
		}
		if x != nil {
			m := ck.decodeModel(x, r)
			rep["model"] = m
			if out, ok, conf := ck.replayOnRealCode(x, r, m); ok {
				rep["replay_on_real_code"] = out
				confirmed = conf
			}
		}
	}
	if ck.replayExtra != nil {
		if d, conf := ck.replayExtra(r); d != nil {
			rep["concrete_search_on_real_code"] = d
			confirmed = confirmed || conf
		}
	}
	rep["confirmed_on_real_code"] = confirmed
	writeJSON(p, rep)
	return p, confirmed
}

// proveLemmas discharges the lemmas tagged with the property.
func (ck *Check) proveLemmas() {
	P := ck.P
	var jobs []job
	for _, n := range P.Specs.LemmaOrd {
		lm := P.Specs.Lemmas[n]
		if lm.Axiom {
			continue
		}
		use := false
		for _, p := range lm.Props {
			if p == ck.Prop {
				use = true
			}
		}
		if !use {
			continue
		}
		x := NewExec(P, nil, &Contract{Fn: "lemma." + n, Allocs: -1, Props: lm.Props})
		x.fname = "lemma." + n
		st := &State{heaps: map[string]Term{}, names: map[string]Val{}, entry: &Snapshot{heaps: map[string]Term{}, names: map[string]Val{}}}
		var goal Term
		func() {
			defer func() {
				if r := recover(); r != nil {
					if u, ok := r.(unsupported); ok {
						ck.outOfSub = append(ck.outOfSub, fmt.Sprintf("lemma %s: %s", n, u.msg))
						return
					}
					panic(r)
				}
			}()
			env := &Env{x: x, st: st, vars: map[string]Val{}}
			if sp := P.findPkg(lm.Pkg); sp != nil {
				env.pkg = sp.Pkg
				x.pkg = sp.Pkg
			}
			// lemma parameters are arbitrary (well-formed) values
			x.instDepth = 2
			for i, v := range lm.Vars {
				ty := x.parseType(lm.VTypes[i], nil)
				val := Val{T: x.fresh("lp!"+v, P.sortOf(ty)), Ty: ty}
				st.assume(x.wf(val.T, ty))
				env.vars[v] = val
			}
			goal = x.trBool(env, lm.Body)
		}()
		if goal.IsZero() {
			continue
		}
		vc := &VC{Name: "lemma/" + n, Fn: "lemma." + n, Kind: "lemma", Assumes: st.pc, Goal: goal, Src: lm.Src, uses: lm.Uses}
		x.lemmaText = ck.lemmaTexts(x, lm.Uses)
		ck.execs = append(ck.execs, x)
		jobs = append(jobs, job{x, vc})
	}
	ck.discharge(jobs)
}

// lemmaTexts translates the named lemmas/axioms into closed formulas.
func (ck *Check) lemmaTexts(x *Exec, names []string) map[string]string {
	out := map[string]string{}
	for _, n := range names {
		lm := ck.P.Specs.Lemmas[n]
		if lm == nil {
			ck.engineErr = append(ck.engineErr, "unknown lemma "+n)
			continue
		}
		if lm.NoAssume {
			ck.dataFact(n, lm)
			continue
		}
		st := &State{heaps: map[string]Term{}, names: map[string]Val{}, entry: &Snapshot{heaps: map[string]Term{}, names: map[string]Val{}}}
		env := &Env{x: x, st: st, vars: map[string]Val{}}
		t := x.trBool(env, lm.Body)
		out[n] = t.S
		if lm.Axiom {
			// an axiom about heap-reading specification functions holds for every
			// heap, not only for the entry heap it was written down in
			out[n] = generaliseHeaps(t.S, st.heaps)
			ck.assume["axiom "+n+": "+lm.Src] = true
		}
		if lm.DataFact {
			ck.dataFact(n, lm)
		}
	}
	return out
}

var pkgRefRe = regexp.MustCompile(`\b([a-z][A-Za-z0-9_]*)\.[A-Z]`)

// dataFact discharges a `datafact` (a Go boolean expression over
// package-level values) by evaluating it on the real package, once per check.
func (ck *Check) dataFact(n string, lm *Lemma) {
	if ck.dataFactDone == nil {
		ck.dataFactDone = map[string]bool{}
	}
	if ck.dataFactDone[n] || ck.Verif == "" {
		return
	}
	ck.dataFactDone[n] = true
	P := ck.P
	sp := P.findPkg(lm.Pkg)
	d := map[string]any{"name": "datafact/" + n, "kind": "Go boolean expression over package-level values, evaluated on the real package", "clause": lm.Src}
	if sp == nil {
		d["ok"] = false
		d["error"] = "package " + lm.Pkg + " not found"
		ck.dataObl = append(ck.dataObl, d)
		return
	}
	imports := map[string]string{}
	for _, m := range pkgRefRe.FindAllStringSubmatch(lm.Src, -1) {
		if q := P.findPkg(m[1]); q != nil && q != sp {
			imports[m[1]] = q.Pkg.Path()
		}
	}
	var body strings.Builder
	fmt.Fprintf(&body, "package %s\n\nimport (\n\t\"fmt\"\n\t\"testing\"\n", sp.Pkg.Name())
	for _, k := range sortedKeys(toSet(imports)) {
		fmt.Fprintf(&body, "\t%s %q\n", k, imports[k])
	}
	fmt.Fprintf(&body, ")\n\nfunc TestGovcDataFact(t *testing.T) {\n\tfmt.Printf(\"GOVC-DATAFACT %%v\\n\", %s)\n}\n", lm.Src)
	out, err := ck.runOverlayTest(pkgDirOf(P, sp.Pkg), "zz_govc_datafact_test.go", body.String(), "^TestGovcDataFact$", 60*time.Second)
	switch {
	case strings.Contains(out, "GOVC-DATAFACT true"):
		d["ok"] = true
	case strings.Contains(out, "GOVC-DATAFACT false"):
		d["ok"] = false
		d["observed"] = "the expression evaluates to false on the real package"
	default:
		d["ok"] = false
		d["error"] = fmt.Sprintf("%v %s", err, firstLines(out, 15))
	}
	ck.dataObl = append(ck.dataObl, d)
}

func toSet(m map[string]string) map[string]bool {
	o := map[string]bool{}
	for k := range m {
		o[k] = true
	}
	return o
}

// findingCanaries re-runs, on the real code, the demonstration of every
// repaired defect recorded for this property: a fixed finding suppresses
// nothing, and if the defect returns the check reports it again.
func (ck *Check) findingCanaries() {
	var file struct {
		Findings []struct {
			Property      string `json:"property"`
			Obligation    string `json:"obligation"`
			Status        string `json:"status"`
			Demonstration string `json:"demonstration"`
		} `json:"findings"`
	}
	b, err := os.ReadFile(filepath.Join(ck.Verif, "known_findings.json"))
	if err != nil {
		return
	}
	json.Unmarshal(b, &file)
	for _, f := range file.Findings {
		if f.Property != ck.Prop || f.Demonstration == "" || f.Status != "fixed" {
			continue
		}
		src, err := os.ReadFile(filepath.Join(ck.Verif, f.Demonstration))
		if err != nil {
			ck.engineErr = append(ck.engineErr, "canary: "+err.Error())
			continue
		}
		out, _ := ck.runOverlayTest(".", "zz_govc_canary_"+filepath.Base(f.Demonstration), string(src), "^TestF[0-9]", 60*time.Second)
		ok := strings.Contains(out, "\nPASS") || strings.HasPrefix(out, "PASS") || strings.Contains(out, "--- PASS")
		failed := strings.Contains(out, "--- FAIL") || strings.Contains(out, "panic:")
		d := map[string]any{"name": "canary/" + f.Obligation, "kind": "regression test of a repaired defect, run on the real code (a test, not a proof)", "ok": ok && !failed}
		if !ok || failed {
			d["output"] = firstLines(out, 30)
		}
		ck.bounded = append(ck.bounded, d)
	}
}

func init() {
	propChecks["C19"] = checkC19
}

// checkC19: bounded stand-in (never counted as proved), see DESIGN §5 C19.
func checkC19(ck *Check) int {
	ck.assume = map[string]bool{}
	src, err := os.ReadFile(filepath.Join(ck.Verif, "harness", "c19_all_test.go"))
	if err != nil {
		fmt.Fprintln(os.Stderr, "engine error:", err)
		return 2
	}
	nodes := "7"
	if ck.Tier == "thorough" {
		nodes = "10"
	}
	os.Setenv("GOVC_C19_NODES", nodes)
	out, _ := ck.runOverlayTest("cfgerrors", "zz_govc_c19_test.go", string(src), "^TestGovcC19$", 10*time.Minute)
	var trees, cases, nontrivial, fails, maxn int
	sample := ""
	found := false
	var failLines []string
	for _, ln := range strings.Split(out, "\n") {
		if strings.HasPrefix(ln, "GOVC-C19-FAIL") {
			failLines = append(failLines, ln)
		}
		if strings.HasPrefix(ln, "GOVC-C19 ") {
			fmt.Sscanf(ln, "GOVC-C19 maxnodes=%d trees=%d cases=%d nontrivial=%d fails=%d sample=%s", &maxn, &trees, &cases, &nontrivial, &fails, &sample)
			found = true
		}
	}
	replayDir := filepath.Join(ck.outDir(), "replays", ck.Prop)
	os.RemoveAll(replayDir)
	violations := 0
	if !found {
		// the harness did not complete: compile error or panic escaping the test
		violations++
		p := ck.writeSimpleReplay(replayDir, "c19_harness", map[string]any{"obligation": "cfgerrors.All/bounded", "output": firstLines(out, 40)})
		fmt.Printf("VIOLATION property=%s replay=%s\n", ck.Prop, p)
	} else if fails > 0 {
		violations++
		p := ck.writeSimpleReplay(replayDir, "c19_all", map[string]any{"obligation": "cfgerrors.All/bounded", "failing_cases": failLines, "how_to_replay": "copy /verif/harness/c19_all_test.go into /repo/cfgerrors and run go test -run TestGovcC19 -v"})
		fmt.Printf("VIOLATION property=%s replay=%s\n", ck.Prop, p)
	}
	cov := map[string]any{
		"evaluations":         cases,
		"distinct_nontrivial": nontrivial,
		"rule":                fmt.Sprintf("every join tree built with errors.Join with at most %d nodes (all shapes, joins of one, nested joins; leaves drawn from all exported cfgerrors types and a foreign error) x every break position 0..#leaves; non-trivial = a tree with at least 2 leaves; oracle = independent recursive flattening, compared as multisets (yield order is unspecified), plus 'nothing yielded after break' and 'no panic'", maxn),
		"samples":             []any{map[string]any{"tree": sample, "break_positions": "0..leaves"}},
		"exhaustive":          true,
		"trees":               trees,
		"bound":               map[string]any{"function": "cfgerrors.All", "max_nodes": maxn},
		"explanation":         "BOUNDED stand-in, not a proof: cfgerrors.All (closure returning closure, range-over-func, type switch on an open interface) is outside the subset of the VC generator; the second sentence of C19 (count equals number of violations) rests on C05's violation-count invariants.",
	}
	ev := Evidence{PropertyID: ck.Prop, Tier: ck.Tier, Seed: seedFromEnv(), Level: "exploration", Coverage: cov,
		Assumptions: []string{"bounded: trees with more nodes than the bound are not explored", "errors.Join builds the tree as documented"},
		WallS:       round2(time.Since(ck.T0).Seconds()), Violations: violations}
	writeJSON(filepath.Join(ck.outDir(), "evidence", ck.Prop+".json"), ev)
	fmt.Printf("%s %s: bounded stand-in, %d trees, %d cases, %d failures, %.1fs\n", ck.Prop, ck.Tier, trees, cases, fails, time.Since(ck.T0).Seconds())
	if violations > 0 {
		return 1
	}
	return 0
}

func init() {
	propChecks["C07"] = func(ck *Check) int {
		ck.assume = map[string]bool{}
		ck.checkC07()
		ck.explanation = "Contract-based verification does not explore schedules. What is decided here, on the SSA control-flow graph of the real code, is the ownership discipline that makes the sequential proofs (C03, C08-C11, C16) valid under concurrency: every access to the guarded fields Middleware.icfg/debug happens under m.mu on every path (loads under at least RLock, stores under Lock); only the lifecycle methods and the handler closure access them; the handler closure and Config take ONE snapshot of each field in ONE critical section; Reconfigure/SetDebug update within one write-locked section; nothing reachable from a published *internalConfig is written outside its construction. The step from 'all conflicting accesses are ordered by m.mu' to 'every response is the sequential response of one (configuration, debug) state current during the request, and there is no data race' is the Go memory model's DRF-SC guarantee plus sync.RWMutex's contract: assumed, not proved. No interleaving is executed or enumerated."
		ck.assume["Go memory model (DRF-SC) and sync.RWMutex mutual exclusion: assumed"] = true
		ck.assume["no schedule is explored; C07 is claimed at level 'other' for the lock/ownership discipline only"] = true
		return ck.finish("other")
	}
	propChecks["C12"] = func(ck *Check) int {
		ck.assume = map[string]bool{}
		ck.checkC12()
		ck.checkC07immutOnly()
		ck.explanation = "Ownership obligations decided on the SSA of the real code (flow facts, no SMT): no function except init stores to a package-level variable; on every handler-visible path (functions after which the wrapped handler runs) no package-level slice and no configuration-owned slice is placed in the response header map (only request-owned or freshly allocated values), so a handler that mutates reachable slices in place cannot affect later requests; every slice stored into an internalConfig is allocated by the validator (no aliasing with the caller's Config); every slice in a Config() result is fresh (literal, Elems, ToSlice = slices.Clone, strings.Split); nothing reachable from a published *internalConfig is written after construction, so the response is a function of (configuration, debug, request, pre-set headers) only. Strings are immutable in Go. Aliasing inside the standard library is trusted."
		ck.assume["aliasing behaviour of stdlib callees (slices.Clone, strings.Split, http.Header.Add/Set allocate fresh values): trusted"] = true
		return ck.finish("other")
	}
}

func (ck *Check) checkC07immutOnly() {
	saved := ck.flowObl
	ck.flowObl = nil
	ck.checkC07()
	var keep []map[string]any
	for _, d := range ck.flowObl {
		if strings.HasPrefix(fmt.Sprint(d["name"]), "C07/immutable_after_publication") {
			d["name"] = strings.Replace(fmt.Sprint(d["name"]), "C07/", "C12/", 1)
			keep = append(keep, d)
		}
	}
	ck.flowObl = append(saved, keep...)
}

func init() {
	extraChecks["C01"] = func(ck *Check) { ck.runTreeStandIn("C01") }
	extraChecks["C06"] = func(ck *Check) { ck.runTreeStandIn("C06") }
	extraChecks["C15"] = func(ck *Check) { ck.runTreeStandIn("C15") }
}

// runTreeStandIn: bounded stand-in for Tree.Insert's functional postcondition
// (labelled bounded, never counted among the discharged obligations).
func (ck *Check) runTreeStandIn(prop string) {
	src, err := os.ReadFile(filepath.Join(ck.Verif, "harness", "c01_tree_test.go"))
	if err != nil {
		ck.engineErr = append(ck.engineErr, err.Error())
		return
	}
	os.Setenv("GOVC_TIER", ck.Tier)
	out, _ := ck.runOverlayTest("internal/origins", "zz_govc_c01_test.go", string(src), "^TestGovcC01$", 20*time.Minute)
	var maxList, universe, probes, lists, evals, nontrivial, fails int
	sample := ""
	found := false
	var failLines []string
	for _, ln := range strings.Split(out, "\n") {
		if strings.HasPrefix(ln, "GOVC-C01-FAIL") && len(failLines) < 20 {
			failLines = append(failLines, ln)
		}
		if strings.HasPrefix(ln, "GOVC-C01 ") {
			fmt.Sscanf(ln, "GOVC-C01 maxlist=%d universe=%d probes=%d lists=%d evals=%d nontrivial=%d fails=%d sample=%s", &maxList, &universe, &probes, &lists, &evals, &nontrivial, &fails, &sample)
			found = true
		}
	}
	d := map[string]any{
		"name":     "bounded/origins.Tree.Insert",
		"kind":     "BOUNDED stand-in on the real code (not a proof): every ordered list of patterns up to the bound x every probe origin, Contains vs. the denotation from the property statement; node invariant on all reachable nodes; Elems()/ParsePattern round trip; plus every ordered list up to the bound over up to 20 patterns of the real grammar (IPv6/IPv4 literals, domains sharing byte suffixes): every rendered element is accepted by ParsePattern, rendering is a fixed point, wildcard-free inputs are contained before and after the round trip",
		"function": "origins.Tree.Insert (+ Elems)",
		"bound":    map[string]any{"max_list_length": maxList, "pattern_universe": universe, "probe_origins": probes},
		"cases":    lists, "evaluations": evals, "nontrivial_lists": nontrivial,
		"sample": sample,
		"ok":     found && fails == 0,
	}
	if !found {
		d["output"] = firstLines(out, 30)
	}
	if fails > 0 {
		d["failing_cases"] = failLines
		d["how_to_replay"] = "copy /verif/harness/c01_tree_test.go into /repo/internal/origins and run go test -run TestGovcC01 -v"
	}
	ck.bounded = append(ck.bounded, d)
	ck.assume["Tree.Insert: functional postcondition (denotation union, NodeOK) is NOT proved; bounded stand-in only (see coverage.bounded)"] = true
}

func init() {
	extraChecks["C17"] = func(ck *Check) {
		// functions whose bodies the safety sweep does not reach are exercised by
		// the bounded stand-ins (no panic on any enumerated case)
		ck.runTreeStandIn("C17")
		ck.runAllStandIn()
		ck.inventory()
	}
}

func (ck *Check) runAllStandIn() {
	src, err := os.ReadFile(filepath.Join(ck.Verif, "harness", "c19_all_test.go"))
	if err != nil {
		ck.engineErr = append(ck.engineErr, err.Error())
		return
	}
	os.Setenv("GOVC_C19_NODES", "7")
	out, _ := ck.runOverlayTest("cfgerrors", "zz_govc_c19_test.go", string(src), "^TestGovcC19$", 10*time.Minute)
	var trees, cases, nontrivial, fails, maxn int
	sample := ""
	found := false
	for _, ln := range strings.Split(out, "\n") {
		if strings.HasPrefix(ln, "GOVC-C19 ") {
			fmt.Sscanf(ln, "GOVC-C19 maxnodes=%d trees=%d cases=%d nontrivial=%d fails=%d sample=%s", &maxn, &trees, &cases, &nontrivial, &fails, &sample)
			found = true
		}
	}
	d := map[string]any{"name": "bounded/cfgerrors.All", "kind": "BOUNDED stand-in (not a proof): all join trees up to the bound x all break positions, no panic and correct leaves",
		"function": "cfgerrors.All", "bound": map[string]any{"max_nodes": maxn}, "cases": cases, "ok": found && fails == 0}
	if !found || fails > 0 {
		d["output"] = firstLines(out, 30)
	}
	ck.bounded = append(ck.bounded, d)
}

// inventory lists, for every function of the module, how its body is covered.
func (ck *Check) inventory() {
	P := ck.P
	var verified, postAssumed, trustedBody, transparent, none []string
	for _, f := range ck.moduleFuncs() {
		n := P.FnName[f]
		if strings.HasSuffix(n, ".init") || strings.Contains(n, "init#") {
			continue
		}
		c := P.Specs.Contracts[n]
		switch {
		case c == nil:
			none = append(none, n)
		case c.Transparent:
			transparent = append(transparent, n)
		case c.Trusted:
			trustedBody = append(trustedBody, n+": "+c.TrustWhy)
		case c.TrustedPost:
			postAssumed = append(postAssumed, n)
		case c.ByExec:
			verified = append(verified, n+" (exhaustive execution)")
		default:
			verified = append(verified, n)
		}
	}
	if ck.extraCov == nil {
		ck.extraCov = map[string]any{}
	}
	ck.extraCov["inventory"] = map[string]any{
		"bodies_under_the_safety_sweep":                              verified,
		"bodies_swept_with_assumed_postconditions":                   postAssumed,
		"executed_in_place_inside_their_callers":                     transparent,
		"bodies_NOT_swept_(trusted_contract,_bounded_stand-in_only)": trustedBody,
		"no_contract_(not_swept)":                                    none,
	}
	for _, n := range none {
		ck.assume["not under the safety sweep: "+n] = true
	}
	for _, n := range trustedBody {
		ck.assume["body not under the safety sweep: "+n] = true
	}
}

// generaliseHeaps closes a formula over the heap constants it mentions.
func generaliseHeaps(text string, heaps map[string]Term) string {
	var binds []string
	i := 0
	for _, k := range sortedKeys(heaps) {
		h := heaps[k]
		re := regexp.MustCompile(`(^|[^A-Za-z0-9_!|])` + regexp.QuoteMeta(h.S) + `($|[^A-Za-z0-9_!|])`)
		if !re.MatchString(text) {
			continue
		}
		v := fmt.Sprintf("hq!%d", i)
		i++
		for re.MatchString(text) {
			text = re.ReplaceAllString(text, "${1}"+v+"${2}")
		}
		binds = append(binds, fmt.Sprintf("(%s %s)", v, h.Sort))
	}
	if len(binds) == 0 {
		return text
	}
	return "(forall (" + strings.Join(binds, " ") + ") " + text + ")"
}
