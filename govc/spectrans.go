package main

// Translation of contract expressions to SMT terms.

import (
	"crypto/sha1"
	"fmt"
	"go/ast"
	"go/token"
	"go/types"
	"regexp"
	"sort"
	"strconv"
	"strings"

	"golang.org/x/tools/go/ssa"
)

type Env struct {
	x        *Exec
	st       *State
	vars     map[string]Val
	pkg      *types.Package
	post     bool
	callee   bool
	oldHeaps map[string]Term
	inOld    bool
	depth    int
	rootSt   *State
	preNext  Term            // allocation frontier before the call (callee postconditions)
	absIndex map[string]Term // index expressions standing for an absolute-position bound variable
}

type specErr struct{ msg string }

func (e *Env) fail(f string, a ...any) {
	panic(unsupported{"spec: " + fmt.Sprintf(f, a...)})
}

func (e *Env) child() *Env {
	n := *e
	n.vars = make(map[string]Val, len(e.vars)+4)
	for k, v := range e.vars {
		n.vars[k] = v
	}
	return &n
}

func (x *Exec) trBool(env *Env, e Expr) Term {
	v := x.tr(env, e)
	if v.T.Sort != SBool {
		env.fail("expected a boolean, got %s in %s", v.T.Sort, exprString(e))
	}
	return v.T
}

var (
	tyInt  = types.Typ[types.Int]
	tyBool = types.Typ[types.Bool]
	tyStr  = types.Typ[types.String]
	tyByte = types.Typ[types.Uint8]
)

func (x *Exec) parseType(s string, pkg *types.Package) types.Type {
	s = strings.TrimSpace(s)
	switch {
	case s == "" || s == "int":
		return tyInt
	case s == "bool":
		return tyBool
	case s == "string":
		return tyStr
	case s == "byte" || s == "uint8":
		return tyByte
	case s == "uint":
		return types.Typ[types.Uint]
	case s == "error":
		return types.Universe.Lookup("error").Type()
	case strings.HasPrefix(s, "*"):
		return types.NewPointer(x.parseType(s[1:], pkg))
	case strings.HasPrefix(s, "[]"):
		return types.NewSlice(x.parseType(s[2:], pkg))
	}
	pn, tn := "", s
	if i := strings.Index(s, "."); i >= 0 {
		pn, tn = s[:i], s[i+1:]
	}
	var cands []*types.Package
	if pn == "" && pkg != nil {
		cands = append(cands, pkg)
	}
	for _, p := range x.P.SSA.AllPackages() {
		if pn == "" || p.Pkg.Name() == pn {
			cands = append(cands, p.Pkg)
		}
	}
	for _, p := range cands {
		if o, ok := p.Scope().Lookup(tn).(*types.TypeName); ok {
			return o.Type()
		}
	}
	panic(unsupported{"spec: unknown type " + s})
}

// oldState returns a throw-away state whose heaps are the pre-state.
func (env *Env) oldState() *State {
	st := env.st
	hs := env.oldHeaps
	if hs == nil && st.entry != nil {
		hs = st.entry.heaps
	}
	o := &State{vals: st.vals, heaps: map[string]Term{}, names: st.names, pc: nil, entry: st.entry}
	for k, v := range hs {
		o.heaps[k] = v
	}
	return o
}

func (x *Exec) tr(env *Env, e Expr) Val {
	P := x.P
	switch e := e.(type) {
	case EInt:
		s := strings.ReplaceAll(e.V, "_", "")
		n, err := strconv.ParseInt(s, 0, 64)
		if err != nil {
			return Val{T: BigInt(s), Ty: tyInt}
		}
		return Val{T: Int(n), Ty: tyInt}
	case EBool:
		return Val{T: Bool(e.V), Ty: tyBool}
	case EStr:
		return Val{T: P.strLit(e.V), Ty: tyStr}
	case EIdent:
		return x.trIdent(env, e.Name)
	case EOld:
		n := env.child()
		n.inOld = true
		if env.st.entry != nil && !env.callee {
			// parameter names denote entry values inside old()
			for k, v := range env.st.entry.names {
				n.vars[k] = v
			}
		}
		o := env.oldState()
		n.st = o
		v := x.tr(n, e.X)
		// side conditions collected in the temporary state are facts about the
		// pre-state; keep them
		for _, f := range o.pc {
			env.st.assume(f)
		}
		return v
	case EUn:
		v := x.tr(env, e.X)
		switch e.Op {
		case "!":
			return Val{T: Not(v.T), Ty: tyBool}
		case "-":
			return Val{T: Sub(Int(0), v.T), Ty: tyInt}
		}
	case ECond:
		c := x.trBool(env, e.C)
		a := x.tr(env, e.A)
		b := x.tr(env, e.B)
		if a.T.Sort == "Nil" && b.Ty != nil {
			a.T = x.nilOf(env, b.Ty)
			a.Ty = b.Ty
		}
		if b.T.Sort == "Nil" && a.Ty != nil {
			b.T = x.nilOf(env, a.Ty)
		}
		return Val{T: x.share(Ite(c, a.T, b.T)), Ty: a.Ty}
	case EBin:
		return x.trBin(env, e)
	case EQuant:
		n := env.child()
		var binds []string
		for i, v := range e.Vars {
			ty := x.parseType(e.Types[i], env.pkg)
			x.nfresh++
			bn := fmt.Sprintf("q!%s!%d", v, x.nfresh)
			n.vars[v] = Val{T: Term{bn, P.sortOf(ty)}, Ty: ty}
			binds = append(binds, fmt.Sprintf("(%s %s)", bn, P.sortOf(ty)))
		}
		// Encoding rule (DESIGN §2.2): a bound variable that indexes a string or
		// slice ranges over ABSOLUTE positions of the backing array, so that
		// E-matching can instantiate it from any select on that array.
		bound := map[string]bool{}
		for _, v := range e.Vars {
			bound[v] = true
		}
		for i, v := range e.Vars {
			if P.sortOf(x.parseType(e.Types[i], env.pkg)) != SInt {
				continue
			}
			ix := findIndexExpr(e.Body, v, bound)
			if ix == nil {
				continue
			}
			base := ix.X
			bv := x.tr(env, base)
			var off Term
			switch bv.T.Sort {
			case SStr:
				off = StrOff(bv.T)
			case SSlice:
				off = SlOff(bv.T)
			default:
				continue
			}
			abs := n.vars[v].T
			rel := Sub(abs, off)
			// x[v+c] / x[v-c]: the absolute variable stands for the whole index
			if b, ok := ix.I.(EBin); ok {
				c := x.tr(env, b.R)
				if b.Op == "+" {
					rel = Sub(rel, c.T)
				} else {
					rel = Add(rel, c.T)
				}
			}
			n.vars[v] = Val{T: rel, Ty: tyInt}
			if n.absIndex == nil {
				n.absIndex = map[string]Term{}
			}
			n.absIndex[exprString(*ix)] = abs
		}
		// facts generated while translating the body (e.g. byte ranges) are dropped:
		// translate on a scratch state sharing heaps
		body := x.trBool(n, e.Body)
		q := "exists"
		if e.Forall {
			q = "forall"
		}
		return Val{T: Term{fmt.Sprintf("(%s (%s) %s)", q, strings.Join(binds, " "), body.S), SBool}, Ty: tyBool}
	case EIndex:
		xv := x.tr(env, e.X)
		if a, ok := env.absIndex[exprString(e)]; ok && P.sortOf(xv.Ty) == SStr {
			// the bound variable ranges over absolute positions of this string's base array
			return Val{T: Select(StrBase(xv.T), a, SInt), Ty: tyByte}
		}
		iv := x.tr(env, e.I)
		switch P.sortOf(xv.Ty) {
		case SStr:
			return Val{T: StrByte(xv.T, iv.T), Ty: tyByte}
		case SSlice:
			et := xv.Ty.Underlying().(*types.Slice).Elem()
			return x.sliceElem(env, xv, iv.T, et)
		}
		env.fail("cannot index %s", exprString(e.X))
	case ESlice:
		xv := x.tr(env, e.X)
		var lo, hi Term
		lo = Int(0)
		if e.Lo != nil {
			lo = x.tr(env, e.Lo).T
		}
		switch P.sortOf(xv.Ty) {
		case SStr:
			hi = StrLen(xv.T)
			if e.Hi != nil {
				hi = x.tr(env, e.Hi).T
			}
			return Val{T: StrSlice(xv.T, lo, hi), Ty: xv.Ty}
		case SSlice:
			hi = SlLen(xv.T)
			if e.Hi != nil {
				hi = x.tr(env, e.Hi).T
			}
			return Val{T: MkSlice(SlArr(xv.T), Add(SlOff(xv.T), lo), Sub(hi, lo), Sub(SlCap(xv.T), lo)), Ty: xv.Ty}
		}
		env.fail("cannot slice %s", exprString(e.X))
	case EField:
		// package-qualified constant or global?
		if id, ok := e.X.(EIdent); ok {
			if _, isVar := env.vars[id.Name]; !isVar {
				if v, ok := x.pkgMember(env, id.Name, e.Name); ok {
					return v
				}
			}
		}
		xv := x.tr(env, e.X)
		return x.fieldOf(env, xv, e.Name)
	case ECall:
		return x.trCall(env, e)
	case EMethod:
		return x.trMethod(env, e)
	}
	env.fail("cannot translate %s", exprString(e))
	return Val{}
}

func (x *Exec) sliceElem(env *Env, s Val, i Term, et types.Type) Val {
	if isStruct(et) {
		a := x.elemAddr(typeKeyOf(x.P, et), SlArr(s.T), Add(SlOff(s.T), i))
		return Val{T: x.loadStruct(env.st, et, a), Ty: et, Addr: &a}
	}
	es := x.P.sortOf(et)
	t := x.readLoc(env.st, &Loc{Kind: "elem", Heap: "E!" + string(es), Addr: SlArr(s.T), Idx: Add(SlOff(s.T), i), Sort: es})
	return Val{T: t, Ty: et}
}

func (x *Exec) fieldOf(env *Env, xv Val, name string) Val {
	if xv.Ty == nil {
		env.fail("field %s of untyped value", name)
	}
	si := x.P.structOf(xv.Ty)
	if si == nil {
		env.fail("field %s of non-struct %s", name, xv.Ty)
	}
	i, f := si.field(name)
	if f == nil {
		// promoted field through an embedded struct
		for k, ef := range si.Fields {
			if isStruct(ef.Ty) {
				if esi := x.P.structOf(ef.Ty); esi != nil {
					if _, ff := esi.field(name); ff != nil {
						inner := x.fieldOf(env, xv, si.Fields[k].Name)
						return x.fieldOf(env, inner, name)
					}
				}
			}
		}
		env.fail("no field %s in %s", name, si.Named)
	}
	if _, isPtr := xv.Ty.Underlying().(*types.Pointer); isPtr {
		if xv.Glob != "" {
			gv := x.globalVal(xv.Glob, xv.Ty.Underlying().(*types.Pointer).Elem())
			return Val{T: si.get(gv, i), Ty: f.Ty}
		}
		if isStruct(f.Ty) {
			a := x.subAddr(si, i, xv.T)
			return Val{T: x.loadStruct(env.st, f.Ty, a), Ty: f.Ty, Addr: &a}
		}
		t := x.readLoc(env.st, &Loc{Kind: "field", Heap: fieldHeap(si, i), Addr: xv.T, Sort: f.Sort})
		return Val{T: t, Ty: f.Ty}
	}
	r := Val{T: si.get(xv.T, i), Ty: f.Ty}
	if xv.Addr != nil && isStruct(f.Ty) {
		a := x.subAddr(si, i, *xv.Addr)
		r.Addr = &a
	}
	return r
}

func (x *Exec) pkgMember(env *Env, pkgName, name string) (Val, bool) {
	if cv, ct, ok := x.P.lookupConst(nil, pkgName, name); ok {
		t, err := x.P.constTerm(cv, ct)
		if err != nil {
			env.fail("%v", err)
		}
		return Val{T: t, Ty: constType(ct)}, true
	}
	if sp := x.P.findPkg(pkgName); sp != nil {
		if g, ok := sp.Members[name].(*ssa.Global); ok {
			et := g.Type().(*types.Pointer).Elem()
			return Val{T: x.globalVal(pkgName+"."+name, et), Ty: et}, true
		}
	}
	return Val{}, false
}

func constType(t types.Type) types.Type {
	if b, ok := t.(*types.Basic); ok {
		switch b.Kind() {
		case types.UntypedInt, types.UntypedRune:
			return tyInt
		case types.UntypedString:
			return tyStr
		case types.UntypedBool:
			return tyBool
		}
	}
	return t
}

func (x *Exec) trIdent(env *Env, name string) Val {
	if v, ok := env.vars[name]; ok {
		if v.Ref != nil {
			// an address-taken local: its current value in the state at hand
			return x.derefVal(env.st, *v.Ref, v.RefTy)
		}
		return v
	}
	if name == "nil" {
		return Val{T: Term{"nil", "Nil"}}
	}
	if cv, ct, ok := x.P.lookupConst(env.pkg, "", name); ok {
		t, err := x.P.constTerm(cv, ct)
		if err != nil {
			env.fail("%v", err)
		}
		return Val{T: t, Ty: constType(ct)}
	}
	if env.pkg != nil {
		if v, ok := x.pkgMember(env, env.pkg.Name(), name); ok {
			return v
		}
	}
	if v, ok := x.renamedLocal(env, name); ok {
		return v
	}
	env.fail("unknown identifier %q", name)
	return Val{}
}

func typeStr(t types.Type) string {
	if t == nil {
		return ""
	}
	return types.TypeString(t, func(p *types.Package) string { return p.Name() })
}

// renamedLocal: the contract names a local variable that no longer exists
// under that name (see localRenames).
func (x *Exec) renamedLocal(env *Env, name string) (Val, bool) {
	if x.c == nil || x.c.Locals == nil || env.st == nil {
		return Val{}, false
	}
	to, ok := x.localRenames()[name]
	if !ok {
		return Val{}, false
	}
	if _, present := env.vars[to]; !present {
		return Val{}, false
	}
	return x.trIdent(env, to), true
}

func nthPermutation(a []string, k int) []string {
	a = append([]string(nil), a...)
	var out []string
	for len(a) > 0 {
		f := 1
		for i := 2; i < len(a); i++ {
			f *= i
		}
		i := k / f
		k %= f
		out = append(out, a[i])
		a = append(a[:i], a[i+1:]...)
	}
	return out
}

// localRenames maps each local that the contract declares (`local name T`)
// and that no longer exists to the current local it is read as: the declared
// locals of type T that are missing and the current locals of type T that the
// contract does not declare are paired in source order, provided there are
// equally many of each. A renamed local must not raise an alarm; a wrong
// pairing can only make a proof fail, never pass (clauses are proved, not
// assumed).
func (x *Exec) localRenames() map[string]string {
	if x.renames != nil {
		return x.renames
	}
	x.renames = map[string]string{}
	if x.c == nil || x.fn == nil || len(x.c.Locals) == 0 {
		return x.renames
	}
	type lv struct {
		name string
		ty   string
		pos  token.Pos
	}
	seen := map[string]bool{}
	var cur []lv
	for _, b := range x.fn.Blocks {
		for _, in := range b.Instrs {
			d, ok := in.(*ssa.DebugRef)
			if !ok {
				continue
			}
			id, ok := d.Expr.(*ast.Ident)
			if !ok || id.Name == "_" {
				continue
			}
			v, isVar := d.Object().(*types.Var)
			if !isVar || v.IsField() || seen[id.Name] {
				continue
			}
			seen[id.Name] = true
			cur = append(cur, lv{id.Name, typeStr(v.Type()), v.Pos()})
		}
	}
	for _, p := range x.fn.Params {
		seen[p.Name()] = true
	}
	sort.Slice(cur, func(i, j int) bool { return cur[i].pos < cur[j].pos })
	params := map[string]bool{}
	for _, p := range x.fn.Params {
		params[p.Name()] = true
	}
	byTypeMissing := map[string][]string{}
	for _, n := range x.c.LocalsOrd {
		if !seen[n] {
			byTypeMissing[x.c.Locals[n]] = append(byTypeMissing[x.c.Locals[n]], n)
		}
	}
	byTypeNew := map[string][]string{}
	for _, l := range cur {
		if _, declared := x.c.Locals[l.name]; declared || params[l.name] {
			continue
		}
		byTypeNew[l.ty] = append(byTypeNew[l.ty], l.name)
	}
	x.renameChoices = 1
	perm := x.renamePerm
	for _, ty := range sortedKeys(byTypeMissing) {
		miss := byTypeMissing[ty]
		if nw := byTypeNew[ty]; len(nw) == len(miss) {
			// the k-th permutation of the new names of this type (k = 0: source order)
			nfact := 1
			for i := 2; i <= len(nw); i++ {
				nfact *= i
			}
			if nfact > 24 {
				nfact = 1
			}
			nw = nthPermutation(nw, perm%nfact)
			perm /= nfact
			x.renameChoices *= nfact
			for i := range miss {
				x.renames[miss[i]] = nw[i]
				x.trusted["contract names local `"+miss[i]+"`, which no longer exists: read as `"+nw[i]+"` (same type "+ty+", same position among the locals of that type)"] = true
			}
		}
	}
	return x.renames
}

func (x *Exec) nilOf(env *Env, t types.Type) Term {
	switch x.P.sortOf(t) {
	case SSlice:
		return NilSlice
	case SIface:
		return NilIface
	case SInt:
		return Int(0)
	}
	env.fail("nil of type %s", t)
	return Term{}
}

func (x *Exec) trBin(env *Env, e EBin) Val {
	switch e.Op {
	case "&&":
		return Val{T: And(x.trBool(env, e.L), x.trBool(env, e.R)), Ty: tyBool}
	case "||":
		return Val{T: Or(x.trBool(env, e.L), x.trBool(env, e.R)), Ty: tyBool}
	case "==>":
		l := x.trBool(env, e.L)
		// short-circuit: on a path where the antecedent is known to be false the
		// consequent (which may mention locals not yet in scope) is not evaluated
		if l.S == "false" || env.st.knows(Not(l)) {
			return Val{T: True, Ty: tyBool}
		}
		return Val{T: Implies(l, x.trBool(env, e.R)), Ty: tyBool}
	case "<==>":
		return Val{T: Eq(x.trBool(env, e.L), x.trBool(env, e.R)), Ty: tyBool}
	}
	l := x.tr(env, e.L)
	r := x.tr(env, e.R)
	if l.T.Sort == "Any" || r.T.Sort == "Any" {
		return Val{T: True, Ty: tyBool}
	}
	if l.T.Sort == "Nil" && r.T.Sort == "Nil" {
		env.fail("nil compared with nil")
	}
	isNil := false
	if l.T.Sort == "Nil" {
		l, r = r, l
	}
	if r.T.Sort == "Nil" {
		isNil = true
	}
	switch e.Op {
	case "==", "!=", "===", "!==":
		var eq Term
		switch {
		case isNil && x.P.sortOf(l.Ty) == SSlice:
			eq = Eq(SlArr(l.T), Int(0))
		case isNil:
			eq = Eq(l.T, x.nilOf(env, l.Ty))
		case l.T.Sort == SStr && (e.Op == "==" || e.Op == "!="):
			eq = x.strEq(l.T, r.T)
		default:
			if l.T.Sort != r.T.Sort {
				env.fail("comparison of %s with %s in %s", l.T.Sort, r.T.Sort, exprString(e))
			}
			eq = Eq(l.T, r.T)
		}
		if e.Op[0] == '!' {
			eq = Not(eq)
		}
		return Val{T: eq, Ty: tyBool}
	case "<", "<=", ">", ">=":
		if l.T.Sort == SStr {
			switch e.Op {
			case "<":
				return Val{T: x.strLt(l.T, r.T), Ty: tyBool}
			case ">":
				return Val{T: x.strLt(r.T, l.T), Ty: tyBool}
			case "<=":
				return Val{T: Not(x.strLt(r.T, l.T)), Ty: tyBool}
			default:
				return Val{T: Not(x.strLt(l.T, r.T)), Ty: tyBool}
			}
		}
		switch e.Op {
		case "<":
			return Val{T: Lt(l.T, r.T), Ty: tyBool}
		case "<=":
			return Val{T: Le(l.T, r.T), Ty: tyBool}
		case ">":
			return Val{T: Gt(l.T, r.T), Ty: tyBool}
		default:
			return Val{T: Ge(l.T, r.T), Ty: tyBool}
		}
	case "+":
		return Val{T: Add(l.T, r.T), Ty: tyInt}
	case "-":
		return Val{T: Sub(l.T, r.T), Ty: tyInt}
	case "*":
		return Val{T: Mul(l.T, r.T), Ty: tyInt}
	case "/":
		return Val{T: App("div", SInt, l.T, r.T), Ty: tyInt}
	case "%":
		return Val{T: App("mod", SInt, l.T, r.T), Ty: tyInt}
	}
	env.fail("operator %s", e.Op)
	return Val{}
}

func (x *Exec) trCall(env *Env, e ECall) Val {
	args := func() []Val {
		var out []Val
		for _, a := range e.Args {
			out = append(out, x.tr(env, a))
		}
		return out
	}
	switch e.Fn {
	case "len":
		v := x.tr(env, e.Args[0])
		switch v.T.Sort {
		case SStr:
			return Val{T: StrLen(v.T), Ty: tyInt}
		case SSlice:
			return Val{T: SlLen(v.T), Ty: tyInt}
		}
		env.fail("len of %s", v.T.Sort)
	case "cap":
		v := x.tr(env, e.Args[0])
		return Val{T: SlCap(v.T), Ty: tyInt}
	case "min", "max":
		as := args()
		r := as[0].T
		for _, a := range as[1:] {
			if e.Fn == "min" {
				r = Ite(Le(r, a.T), r, a.T)
			} else {
				r = Ite(Ge(r, a.T), r, a.T)
			}
		}
		return Val{T: r, Ty: tyInt}
	case "arr":
		v := x.tr(env, e.Args[0])
		return Val{T: SlArr(v.T), Ty: tyInt}
	case "off":
		v := x.tr(env, e.Args[0])
		if v.T.Sort == SStr {
			return Val{T: StrOff(v.T), Ty: tyInt}
		}
		return Val{T: SlOff(v.T), Ty: tyInt}
	case "base":
		v := x.tr(env, e.Args[0])
		return Val{T: StrBase(v.T), Ty: nil}
	case "dyntype":
		// dyntype(err, "*cfgerrors.UnacceptableMethodError")
		v := x.tr(env, e.Args[0])
		s, ok := e.Args[1].(EStr)
		if !ok {
			env.fail("dyntype(x, \"type\")")
		}
		t := x.parseType(s.V, env.pkg)
		return Val{T: Eq(IfTyp(v.T), Int(int64(x.P.typeID(t)))), Ty: tyBool}
	case "payload":
		// payload(err, "*cfgerrors.X") : the pointer held by the interface, typed
		v := x.tr(env, e.Args[0])
		s, ok := e.Args[1].(EStr)
		if !ok {
			env.fail("payload(x, \"type\")")
		}
		t := x.parseType(s.V, env.pkg)
		return Val{T: IfPtr(v.T), Ty: t}
	case "closurefn", "fnid", "closurefv":
		// ghost description of func values built by MakeClosure
		str := func(a Expr) string {
			s, ok := a.(EStr)
			if !ok {
				env.fail("%s: function name must be a string literal", e.Fn)
			}
			return s.V
		}
		switch e.Fn {
		case "fnid":
			return Val{T: Int(int64(x.P.typeID(closureKey{str(e.Args[0])}))), Ty: tyInt}
		case "closurefn":
			v := x.tr(env, e.Args[0])
			return Val{T: App(x.declareFun("closfn", []Sort{SInt}, SInt), SInt, v.T), Ty: tyInt}
		default:
			v := x.tr(env, e.Args[0])
			fn := x.P.Funcs[str(e.Args[1])]
			idxE, ok := e.Args[2].(EInt)
			idx := 0
			if ok {
				fmt.Sscan(idxE.V, &idx)
			}
			if fn == nil || !ok || idx >= len(fn.FreeVars) {
				env.fail("closurefv(f, \"function\", i): unknown function or index")
			}
			return Val{T: App(x.declareFun("closfv", []Sort{SInt, SInt}, SInt), SInt, v.T, Int(int64(idx))), Ty: fn.FreeVars[idx].Type()}
		}
	case "hdr":
		v := x.tr(env, e.Args[0])
		f := x.declareFun("whdr", []Sort{SIface}, SInt)
		return Val{T: App(f, SInt, v.T), Ty: nil}
	case "has", "get":
		m := x.tr(env, e.Args[0])
		k := x.tr(env, e.Args[1])
		val, present := x.mapRead(env.st, m.T, k.T)
		if e.Fn == "has" {
			return Val{T: present, Ty: tyBool}
		}
		return Val{T: val, Ty: types.NewSlice(tyStr)}
	case "nevents":
		s, ok := e.Args[0].(EStr)
		if !ok {
			env.fail("nevents(\"Kind\")")
		}
		n := 0
		for _, ev := range env.st.events {
			if ev.Kind == s.V {
				n++
			}
		}
		return Val{T: Int(int64(n)), Ty: tyInt}
	case "status":
		// argument of the only WriteHeader event (0 if none)
		var t Term = Int(0)
		for _, ev := range env.st.events {
			if ev.Kind == "WriteHeader" {
				t = ev.Args[1].T
			}
		}
		return Val{T: t, Ty: tyInt}
	case "lastevent":
		s, ok := e.Args[0].(EStr)
		if !ok {
			env.fail("lastevent(\"Kind\")")
		}
		evs := env.st.events
		return Val{T: Bool(len(evs) > 0 && evs[len(evs)-1].Kind == s.V), Ty: tyBool}
	case "eventarg":
		// eventarg("ServeHTTP", i): argument i of the first such event
		s, ok := e.Args[0].(EStr)
		iv, ok2 := e.Args[1].(EInt)
		if !ok || !ok2 {
			env.fail("eventarg(\"Kind\", i)")
		}
		i, _ := strconv.Atoi(iv.V)
		for _, ev := range env.st.events {
			if ev.Kind == s.V && i < len(ev.Args) {
				return ev.Args[i]
			}
		}
		return Val{T: Term{"any", "Any"}}
	case "mapV", "mapP":
		m := x.tr(env, e.Args[0])
		if e.Fn == "mapV" {
			return Val{T: readArr(x.heap(env.st, "MV!", SSlice), m.T, "(Array Str Slice)")}
		}
		return Val{T: readArr(x.heap(env.st, "MP!", SBool), m.T, "(Array Str Bool)")}
	case "at":
		as := args()
		es := elemSortOfHeap(as[0].T.Sort)
		v := Val{T: Select(as[0].T, as[1].T, es)}
		if es == SSlice {
			v.Ty = types.NewSlice(tyStr)
		} else if es == SBool {
			v.Ty = tyBool
		}
		return v
	case "upd":
		as := args()
		return Val{T: Store(as[0].T, as[1].T, as[2].T)}
	case "addr":
		v := x.tr(env, e.Args[0])
		if v.Addr == nil {
			env.fail("addr(): %s is not addressable", exprString(e.Args[0]))
		}
		return Val{T: *v.Addr, Ty: types.NewPointer(v.Ty)}
	case "emitted":
		// value at the point where the middleware is done: right before the
		// wrapped handler is invoked, or at return if it is not invoked
		if env.st.atServe == nil {
			return x.tr(env, e.Args[0])
		}
		n := env.child()
		o := &State{vals: env.st.vals, heaps: copyHeaps(env.st.atServe), names: env.st.names, entry: env.st.entry, events: env.st.events}
		n.st = o
		v := x.tr(n, e.Args[0])
		for _, f := range o.pc {
			env.st.assume(f)
		}
		return v
	case "nodep":
		// nodep(E): neither the path condition nor anything the middleware
		// emitted (response-header map, string elements, event arguments)
		// mentions the term E -- a syntactic non-interference check, sound for
		// the loop-free handler paths
		v := x.tr(env, e.Args[0])
		st := env.st
		var texts []string
		pcs := st.pc
		if st.ensStart > 0 && st.ensStart <= len(pcs) {
			pcs = pcs[:st.ensStart] // facts assumed from already-proved postconditions do not count
		}
		for _, f := range pcs {
			texts = append(texts, f.S)
		}
		hs := st.heaps
		if st.atServe != nil {
			hs = st.atServe
		}
		for _, hn := range []string{"MP!", "MV!", "E!Str"} {
			if t, ok := hs[hn]; ok {
				texts = append(texts, t.S)
			}
		}
		for _, ev := range st.events {
			for _, a := range ev.Args {
				texts = append(texts, a.T.S)
			}
		}
		seen := map[string]bool{}
		dep := false
		for len(texts) > 0 && !dep {
			t := texts[len(texts)-1]
			texts = texts[:len(texts)-1]
			if strings.Contains(t, v.T.S) {
				dep = true
				break
			}
			tk := map[string]bool{}
			tokensOf(t, tk)
			for k := range tk {
				if strings.HasPrefix(k, "d!") && !seen[k] {
					seen[k] = true
					texts = append(texts, x.axioms[k]...)
				}
			}
		}
		return Val{T: Bool(!dep), Ty: tyBool}
	case "deref":
		p := x.tr(env, e.Args[0])
		pt, ok := p.Ty.Underlying().(*types.Pointer)
		if !ok {
			env.fail("deref of non-pointer %s", exprString(e.Args[0]))
		}
		_ = pt
		return x.derefVal(env.st, p, p.Ty)
	case "isfresh":
		// isfresh(a): address a was allocated during the call (post-state of a callee
		// contract) or during this function (own postcondition)
		v := x.tr(env, e.Args[0])
		pre := env.preNext
		if pre.IsZero() {
			x.declare("brk!", SInt)
			pre = Term{"brk!", SInt}
		}
		return Val{T: Ge(v.T, pre), Ty: tyBool}
	case "brk":
		x.declare("brk!", SInt)
		return Val{T: Term{"brk!", SInt}, Ty: tyInt}
	case "streq":
		as := args()
		return Val{T: x.strEq(as[0].T, as[1].T), Ty: tyBool}
	case "unchanged_below":
		// unchanged_below("E!Str"): every array that existed before the call
		// (address below the pre-state allocation frontier) has its old contents
		s, ok := e.Args[0].(EStr)
		if !ok {
			env.fail("unchanged_below(\"heap\")")
		}
		es := heapElemSort(s.V)
		cur := x.heap(env.st, s.V, es)
		oldH, ok2 := env.oldState().heaps[s.V]
		if !ok2 || cur.S == oldH.S {
			return Val{T: True, Ty: tyBool}
		}
		pre := env.preNext
		if pre.IsZero() {
			x.declare("brk!", SInt)
			pre = Term{"brk!", SInt}
		}
		return Val{T: Term{fmt.Sprintf("(forall ((a!u Int)) (! (=> (and (< 0 a!u) (< a!u %s)) (= (select %s a!u) (select %s a!u))) :pattern ((select %s a!u))))", pre.S, cur.S, oldH.S, cur.S), SBool}, Ty: tyBool}
	case "sameheap":
		// sameheap("E!Str"): the named heap is unchanged since the pre-state
		s, ok := e.Args[0].(EStr)
		if !ok {
			env.fail("sameheap(\"name\")")
		}
		cur, ok1 := env.st.heaps[s.V]
		old := env.oldState().heaps[s.V]
		if !ok1 || old.IsZero() {
			return Val{T: True, Ty: tyBool}
		}
		return Val{T: Eq(cur, old), Ty: tyBool}
	}
	if sf, ok := x.P.Specs.SpecFns[e.Fn]; ok {
		return x.applySpecFn(env, sf, args())
	}
	// Go function: name, pkg.name or name$k (k-th result)
	return x.goFuncApp(env, e.Fn, "", args())
}

func (x *Exec) trMethod(env *Env, e EMethod) Val {
	// pkg.Func(args) ?
	if id, ok := e.X.(EIdent); ok {
		if _, isVar := env.vars[id.Name]; !isVar {
			if sp := x.P.findPkg(id.Name); sp != nil {
				var as []Val
				for _, a := range e.Args {
					as = append(as, x.tr(env, a))
				}
				if sf, ok := x.P.Specs.SpecFns[e.Name]; ok {
					return x.applySpecFn(env, sf, as)
				}
				return x.goFuncApp(env, e.Name, id.Name, as)
			}
		}
	}
	recv := x.tr(env, e.X)
	if recv.Ty == nil {
		env.fail("method call on untyped value in %s", exprString(e))
	}
	rt := recv.Ty
	if p, ok := rt.Underlying().(*types.Pointer); ok {
		rt = p.Elem()
	}
	named, ok := rt.(*types.Named)
	if !ok {
		env.fail("method call on %s", rt)
	}
	base, sel := e.Name, ""
	if i := strings.Index(base, "$"); i >= 0 {
		base, sel = base[:i], base[i:]
	}
	qn := named.Obj().Pkg().Name() + "." + named.Obj().Name() + "." + base
	f := x.P.Funcs[qn]
	if f == nil {
		env.fail("unknown method %s", qn)
	}
	// receiver adaptation
	wantPtr := false
	if r := f.Signature.Recv(); r != nil {
		_, wantPtr = r.Type().Underlying().(*types.Pointer)
	}
	_, havePtr := recv.Ty.Underlying().(*types.Pointer)
	switch {
	case wantPtr && !havePtr:
		if recv.Addr == nil {
			env.fail("method %s needs an addressable receiver in %s", qn, exprString(e))
		}
		recv = Val{T: *recv.Addr, Ty: types.NewPointer(recv.Ty)}
	case !wantPtr && havePtr:
		recv = Val{T: x.loadStruct(env.st, rt, recv.T), Ty: rt}
	}
	as := []Val{recv}
	for _, a := range e.Args {
		as = append(as, x.tr(env, a))
	}
	return x.goFuncAppFn(env, qn, f, sel, as)
}

func (x *Exec) goFuncApp(env *Env, name, pkgName string, args []Val) Val {
	base, sel := name, ""
	if i := strings.Index(name, "$"); i >= 0 {
		base, sel = name[:i], name[i:]
	}
	var cands []string
	if pkgName != "" {
		cands = append(cands, pkgName+"."+base)
	} else {
		if env.pkg != nil {
			cands = append(cands, env.pkg.Name()+"."+base)
		}
		if x.pkg != nil {
			cands = append(cands, x.pkg.Name()+"."+base)
		}
	}
	for _, qn := range cands {
		if f := x.P.Funcs[qn]; f != nil {
			return x.goFuncAppFn(env, qn, f, sel, args)
		}
		if c := x.P.Specs.Contracts[qn]; c != nil {
			return x.goFuncAppFn(env, qn, nil, sel, args)
		}
	}
	env.fail("unknown function %s", name)
	return Val{}
}

func (x *Exec) goFuncAppFn(env *Env, qn string, f *ssa.Function, sel string, args []Val) Val {
	c := x.P.Specs.Contracts[qn]
	if c == nil {
		env.fail("function %s used in a specification has no contract", qn)
	}
	if !c.Pure && !c.Inline {
		env.fail("function %s used in a specification is not pure", qn)
	}
	var rt types.Type
	if f != nil {
		res := f.Signature.Results()
		if res.Len() == 1 {
			rt = res.At(0).Type()
		} else {
			rt = res
		}
	} else {
		if len(c.ResTys) == 1 {
			rt = x.parseType(c.ResTys[0], env.pkg)
		} else {
			var vs []*types.Var
			for i, t := range c.ResTys {
				vs = append(vs, types.NewVar(0, nil, c.ResNames[i], x.parseType(t, env.pkg)))
			}
			rt = types.NewTuple(vs...)
		}
	}
	// coerce untyped spec ints to parameter types (no-op on terms)
	if f != nil {
		for i := range args {
			if i < len(f.Params) {
				args[i].Ty = f.Params[i].Type()
			}
		}
	}
	var r Val
	if c.Inline {
		cenv := x.calleeEnv(env.st, c, f, args)
		r = x.inlineDef(cenv, qn, c, rt)
	} else {
		r = x.pureApp(env.st, qn, f, c, args, env.st.heaps, rt)
		// instantiate the contract for ground applications
		if as := argString(args); !strings.Contains(as, "q!") && !strings.Contains(as, "a!") {
			x.instantiatePure(env, qn, c, f, args, r, rt)
		}
	}
	if sel != "" {
		i, err := strconv.Atoi(sel[1:])
		if err != nil || i >= len(r.Tup) {
			env.fail("bad result selector %s on %s", sel, qn)
		}
		return r.Tup[i]
	}
	return r
}

func argString(args []Val) string {
	var sb strings.Builder
	for _, a := range args {
		sb.WriteString(a.T.S)
		sb.WriteByte(' ')
	}
	return sb.String()
}

// instantiatePure assumes requires ==> ensures for one ground application.
func (x *Exec) instantiatePure(env *Env, qn string, c *Contract, f *ssa.Function, args []Val, r Val, rt types.Type) {
	if env.depth > x.instDepth {
		return // nested applications inside an instantiated contract stay opaque
	}
	key := "inst:" + qn + ":" + argString(args) + ":" + heapKey(env.st)
	if x.instDone == nil {
		x.instDone = map[string]bool{}
	}
	st := env.st
	if x.instDone[key] {
		// facts were added to some state already; they are path-independent
		// consequences of the contract, so re-adding is harmless but redundant
	}
	cenv := x.calleeEnv(st, c, f, args)
	cenv.depth = env.depth + 1
	cenv.post = true
	cenv.oldHeaps = st.heaps
	x.bindResults(cenv, c, f, r, rt)
	var pre []Term
	for _, rq := range c.Requires {
		pre = append(pre, x.trBool(cenv, rq.E))
	}
	var post []Term
	for _, en := range c.Ensures {
		if !x.wantsClause(en) {
			continue
		}
		post = append(post, x.trBool(cenv, en.E))
	}
	var wfs []Term
	if len(r.Tup) > 0 {
		for _, e := range r.Tup {
			wfs = append(wfs, x.wf(e.T, e.Ty))
		}
	} else if r.Ty != nil && !r.T.IsZero() {
		wfs = append(wfs, x.wf(r.T, r.Ty))
	}
	fact := And(And(wfs...), Implies(And(pre...), And(post...)))
	root := env.root()
	root.assume(fact)
	x.instDone[key] = true
}

func heapKey(st *State) string { return "" }

// root returns the real execution state facts should be added to.
func (env *Env) root() *State {
	if env.rootSt != nil {
		return env.rootSt
	}
	return env.st
}

func (x *Exec) applySpecFn(env *Env, sf *SpecFn, args []Val) Val {
	// types and unqualified names in a spec function are resolved in the
	// package of the file that declares it
	if sp := x.P.findPkg(sf.Pkg); sp != nil && (env.pkg == nil || env.pkg != sp.Pkg) {
		e2 := *env
		e2.pkg = sp.Pkg
		env = &e2
	}
	if len(args) != len(sf.Params) {
		env.fail("spec function %s: %d arguments, want %d", sf.Name, len(args), len(sf.Params))
	}
	rt := x.parseType(sf.RType, env.pkg)
	if sf.Uninter {
		var sorts []Sort
		var ts []Term
		for _, h := range sf.Reads {
			ht := x.heap(env.st, h, heapElemSort(h))
			if x.isFrozen(h) {
				ht = x.entryHeap(env.st, h, heapElemSort(h))
			}
			sorts = append(sorts, ht.Sort)
			ts = append(ts, ht)
		}
		for _, a := range args {
			sorts = append(sorts, a.T.Sort)
			ts = append(ts, a.T)
		}
		fn := x.declareFun("spec!"+sf.Name, sorts, x.P.sortOf(rt))
		res := Val{T: App(fn, x.P.sortOf(rt), ts...), Ty: rt}
		if len(sf.Ensures) > 0 && env.depth < 4 {
			if as := argString(args); !strings.Contains(as, "q!") && !strings.Contains(as, "a!") {
				n := &Env{x: x, st: env.st, vars: map[string]Val{}, pkg: env.pkg, depth: env.depth + 1, rootSt: env.rootSt, oldHeaps: env.oldHeaps}
				for i, p := range sf.Params {
					a := args[i]
					a.Ty = x.specParamType(sf.PTypes[i], a.Ty, env.pkg)
					n.vars[p] = a
				}
				n.vars["result"] = res
				for _, en := range sf.Ensures {
					env.root().assume(x.trBool(n, en.E))
				}
			}
		}
		return res
	}
	if !sf.Rec {
		n := &Env{x: x, st: env.st, vars: map[string]Val{}, pkg: env.pkg, post: env.post, oldHeaps: env.oldHeaps, depth: env.depth, rootSt: env.rootSt}
		for i, p := range sf.Params {
			a := args[i]
			a.Ty = x.specParamType(sf.PTypes[i], a.Ty, env.pkg)
			n.vars[p] = a
		}
		v := x.tr(n, sf.Body)
		v.Ty = rt
		v.T = x.share(v.T)
		return v
	}
	// recursive: uninterpreted symbol + definitional axiom. The symbol is
	// indexed by the heap state it is unfolded in, so that (mutually)
	// recursive definitions over different heap versions never share a name.
	var sorts []Sort
	var ts []Term
	for i := range sf.Params {
		ty := x.specParamType(sf.PTypes[i], args[i].Ty, env.pkg)
		sorts = append(sorts, x.P.sortOf(ty))
		ts = append(ts, args[i].T)
	}
	rs := x.P.sortOf(rt)
	if x.recDone == nil {
		x.recDone = map[string]bool{}
		x.recPending = map[string]bool{}
		x.recName = map[string]string{}
	}
	pend := "spec!" + sf.Name + "!PENDING"
	if x.recPending[sf.Name] {
		// (mutually) recursive reference while the definition is being translated
		return Val{T: App(pend, rs, ts...), Ty: rt}
	}
	// translate the body (in the heap state at hand) to find out which heap
	// versions it reads; the symbol is indexed by those
	x.recPending[sf.Name] = true
	hs := copyHeaps(env.st.heaps)
	if env.st.entry != nil {
		// frozen heaps: like an uninterpreted specification function, a named
		// (recursive) one is evaluated on the entry version of frozen memory
		for h := range hs {
			if x.isFrozen(h) {
				if t, ok := env.st.entry.heaps[h]; ok {
					hs[h] = t
				}
			}
		}
	}
	n := &Env{x: x, st: &State{vals: env.st.vals, heaps: hs, names: env.st.names, entry: env.st.entry}, vars: map[string]Val{}, pkg: env.pkg, depth: env.depth}
	var binds []string
	var bvars []Term
	for i, p := range sf.Params {
		ty := x.specParamType(sf.PTypes[i], args[i].Ty, env.pkg)
		bn := fmt.Sprintf("a!%s!%s", sf.Name, p)
		n.vars[p] = Val{T: Term{bn, sorts[i]}, Ty: ty}
		binds = append(binds, fmt.Sprintf("(%s %s)", bn, sorts[i]))
		bvars = append(bvars, Term{bn, sorts[i]})
	}
	before := map[string]bool{}
	for k := range x.axioms {
		before[k] = true
	}
	body := x.tr(n, sf.Body)
	delete(x.recPending, sf.Name)
	// canonical text: references to recursive spec functions by plain name, so
	// that the symbol does not depend on which function of a mutually
	// recursive group was unfolded first
	h := sha1.Sum([]byte(boundVarRe.ReplaceAllString(recRefRe.ReplaceAllString(body.T.S, "spec!$1"), "q!$1")))
	name := fmt.Sprintf("spec!%s!%x", sf.Name, h[:4])
	fn := x.declareFun(name, sorts, rs)
	if !x.recDone[name] {
		x.recDone[name] = true
		lhs := App(fn, rs, bvars...)
		ax := fmt.Sprintf("(forall (%s) (! (= %s %s) :pattern (%s)))", strings.Join(binds, " "), lhs.S, body.T.S, lhs.S)
		x.axioms[fn] = append(x.axioms[fn], strings.ReplaceAll(ax, pend, fn))
	}
	// patch references made by definitions translated meanwhile
	for k, as := range x.axioms {
		for i, a := range as {
			if strings.Contains(a, pend) {
				x.axioms[k][i] = strings.ReplaceAll(a, pend, fn)
			}
		}
	}
	_ = before
	return Val{T: App(fn, rs, ts...), Ty: rt}
}

var boundVarRe = regexp.MustCompile(`q!([A-Za-z0-9_]+)![0-9]+`)

var recRefRe = regexp.MustCompile(`spec!([A-Za-z0-9_]+)!(PENDING|[0-9a-f]{8})`)

func heapStateKey(st *State) string {
	ks := sortedKeys(st.heaps)
	var sb strings.Builder
	for _, k := range ks {
		if strings.HasPrefix(k, "E!") || strings.HasPrefix(k, "F!") || strings.HasPrefix(k, "M") {
			sb.WriteString(k)
			sb.WriteByte('=')
			sb.WriteString(st.heaps[k].S)
			sb.WriteByte(';')
		}
	}
	return sb.String()
}

func copyHeaps(h map[string]Term) map[string]Term {
	o := make(map[string]Term, len(h))
	for k, v := range h {
		o[k] = v
	}
	return o
}

func (x *Exec) specParamType(decl string, actual types.Type, pkg *types.Package) types.Type {
	if decl == "" {
		if actual != nil {
			return actual
		}
		return tyInt
	}
	return x.parseType(decl, pkg)
}

// findIndexBase returns the first sequence expression indexed by bound
// variable v (as x[v] or x[v+c]) whose own text mentions no bound variable.
func findIndexExpr(e Expr, v string, bound map[string]bool) *EIndex {
	var res *EIndex
	var walk func(e Expr)
	isV := func(i Expr) bool {
		switch i := i.(type) {
		case EIdent:
			return i.Name == v
		case EBin:
			if i.Op == "+" || i.Op == "-" {
				if id, ok := i.L.(EIdent); ok && id.Name == v && !mentions(i.R, bound) {
					return true
				}
			}
		}
		return false
	}
	walk = func(e Expr) {
		if res != nil || e == nil {
			return
		}
		switch e := e.(type) {
		case EIndex:
			if isV(e.I) && !mentions(e.X, bound) {
				cp := e
				res = &cp
				return
			}
			walk(e.X)
			walk(e.I)
		case EUn:
			walk(e.X)
		case EBin:
			walk(e.L)
			walk(e.R)
		case ECall:
			for _, a := range e.Args {
				walk(a)
			}
		case EMethod:
			walk(e.X)
			for _, a := range e.Args {
				walk(a)
			}
		case ESlice:
			walk(e.X)
			walk(e.Lo)
			walk(e.Hi)
		case EField:
			walk(e.X)
		case EQuant:
			walk(e.Body)
		case EOld:
			walk(e.X)
		case ECond:
			walk(e.C)
			walk(e.A)
			walk(e.B)
		}
	}
	walk(e)
	return res
}

func mentions(e Expr, names map[string]bool) bool {
	found := false
	var walk func(e Expr)
	walk = func(e Expr) {
		if found || e == nil {
			return
		}
		switch e := e.(type) {
		case EIdent:
			if names[e.Name] {
				found = true
			}
		case EIndex:
			walk(e.X)
			walk(e.I)
		case EUn:
			walk(e.X)
		case EBin:
			walk(e.L)
			walk(e.R)
		case ECall:
			for _, a := range e.Args {
				walk(a)
			}
		case EMethod:
			walk(e.X)
			for _, a := range e.Args {
				walk(a)
			}
		case ESlice:
			walk(e.X)
			walk(e.Lo)
			walk(e.Hi)
		case EField:
			walk(e.X)
		case EQuant:
			walk(e.Body)
		case EOld:
			walk(e.X)
		case ECond:
			walk(e.C)
			walk(e.A)
			walk(e.B)
		}
	}
	walk(e)
	return found
}

func exprString(e Expr) string {
	return fmt.Sprintf("%v", e)
}

// heapElemSort recovers the element sort of a heap from its name
// (F!<struct>!<field>, E!<sort>, C!<sort>, MP!, MV!).
func heapElemSort(h string) Sort {
	switch {
	case h == "MP!":
		return SBool
	case h == "MV!":
		return SSlice
	case strings.HasPrefix(h, "E!") || strings.HasPrefix(h, "C!"):
		return Sort(h[2:])
	case strings.HasPrefix(h, "F!"):
		parts := strings.SplitN(h[2:], "!", 2)
		if len(parts) == 2 {
			for _, si := range theProg.structInfo {
				if si.Named == parts[0] {
					for _, f := range si.Fields {
						if cleanName(f.Name) == parts[1] {
							return f.Sort
						}
					}
				}
			}
		}
	}
	panic(unsupported{"unknown heap " + h})
}
