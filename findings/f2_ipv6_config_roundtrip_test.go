package cors_test

// F2 (C06): Config() renders a bracketed IPv6 pattern without brackets, so
// m.Reconfigure(m.Config()) -- documented as a guaranteed no-op -- fails.

import (
	"testing"

	"github.com/jub0bs/cors"
)

func TestF2ConfigRoundTripIPv6(t *testing.T) {
	m, err := cors.NewMiddleware(cors.Config{Origins: []string{"http://[::1]:9090"}})
	if err != nil {
		t.Fatal(err)
	}
	cfg := m.Config()
	if err := m.Reconfigure(cfg); err != nil {
		t.Fatalf("Reconfigure(Config()) failed; Config().Origins = %q: %v", cfg.Origins, err)
	}
}
