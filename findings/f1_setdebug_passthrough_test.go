package cors_test

// F1 (C09): SetDebug(true) on a passthrough middleware is documented as a
// no-op ("its debug mode is invariably off"), but the flag sticks and a later
// Reconfigure(valid) serves in debug mode.

import (
	"net/http"
	"net/http/httptest"
	"testing"

	"github.com/jub0bs/cors"
)

func TestF1SetDebugOnPassthroughIsNoOp(t *testing.T) {
	var m cors.Middleware // passthrough
	m.SetDebug(true)      // documented no-op
	if err := m.Reconfigure(&cors.Config{Origins: []string{"https://example.com"}}); err != nil {
		t.Fatal(err)
	}
	h := m.Wrap(http.HandlerFunc(func(http.ResponseWriter, *http.Request) {}))
	req := httptest.NewRequest(http.MethodOptions, "https://api.example.org/", nil)
	req.Header.Set("Origin", "https://example.com")
	req.Header.Set("Access-Control-Request-Method", "PUT") // not allowed: preflight fails
	rec := httptest.NewRecorder()
	h.ServeHTTP(rec, req)
	if rec.Code != http.StatusForbidden || rec.Header().Get("Access-Control-Allow-Origin") != "" {
		t.Fatalf("debug mode is on after SetDebug(true) on a passthrough: status %d, ACAO %q (want 403 and no ACAO)",
			rec.Code, rec.Header().Get("Access-Control-Allow-Origin"))
	}
}
