package cors_test

// F4 (C06/C15): listing the same "*." pattern twice stores it twice in the
// tree (node.add encodes the port for wildcard entries and then calls
// node.contains, which encodes it again, so the duplicate is never found):
// Config() repeats the pattern and every Reconfigure(Config()) round trip
// doubles the repetitions, so Config() is not a fixed point after a round
// trip and two Configs differing only in repetition yield different Config().

import (
	"slices"
	"testing"

	"github.com/jub0bs/cors"
)

func TestF4DuplicateWildcardPattern(t *testing.T) {
	once, err := cors.NewMiddleware(cors.Config{Origins: []string{"https://*.example.com"}})
	if err != nil {
		t.Fatal(err)
	}
	twice, err := cors.NewMiddleware(cors.Config{Origins: []string{"https://*.example.com", "https://*.example.com"}})
	if err != nil {
		t.Fatal(err)
	}
	if got, want := twice.Config().Origins, once.Config().Origins; !slices.Equal(got, want) {
		t.Errorf("repeating a pattern changes Config().Origins: %q vs %q", got, want)
	}
	c1 := twice.Config()
	if err := twice.Reconfigure(c1); err != nil {
		t.Fatal(err)
	}
	c2 := twice.Config()
	if !slices.Equal(c1.Origins, c2.Origins) {
		t.Errorf("Config() is not stable under Reconfigure(Config()): %q then %q", c1.Origins, c2.Origins)
	}
}
