package cors_test

// F3 (C13): a documented-valid, wildcard-free pattern with every length
// maximum at once (64-byte scheme, 253-byte domain plus trailing dot, 5-digit
// port = 327 bytes) is accepted as a pattern but the same string presented as
// an Origin is not allowed by it (origins.Parse caps the length at 326).

import (
	"net/http"
	"net/http/httptest"
	"strings"
	"testing"

	"github.com/jub0bs/cors"
)

func TestF3SelfMatchAtAllMaxima(t *testing.T) {
	scheme := "a" + strings.Repeat("b", 63)
	label := strings.Repeat("a", 63)
	domain := label + "." + label + "." + label + "." + strings.Repeat("a", 61) // 253 bytes
	for _, host := range []string{domain, domain + "."} {
		pattern := scheme + "://" + host + ":65535"
		m, err := cors.NewMiddleware(cors.Config{Origins: []string{pattern}})
		if err != nil {
			t.Fatalf("len %d: pattern rejected: %v", len(pattern), err)
		}
		h := m.Wrap(http.HandlerFunc(func(http.ResponseWriter, *http.Request) {}))
		req := httptest.NewRequest(http.MethodGet, "https://api.example.org/", nil)
		req.Header.Set("Origin", pattern)
		rec := httptest.NewRecorder()
		h.ServeHTTP(rec, req)
		if got := rec.Header().Get("Access-Control-Allow-Origin"); got != pattern {
			t.Errorf("len %d: accepted pattern does not allow itself as an Origin (ACAO %q)", len(pattern), got)
		}
	}
}
