#!/bin/bash
# usage: try_mutant.sh <diff> <prop>...   applies the diff to /repo, runs the quick checks, reverts
d=$1; shift
keep=$(mktemp -d); cp -r /verif/evidence $keep/evidence
cd /repo && [ -z "$(git status --porcelain)" ] || { echo "REPO DIRTY"; exit 4; }; git apply "$d" || { echo "APPLY FAILED $d"; exit 3; }
for p in "$@"; do
  out=$(cd /verif && timeout 900 ./bin/govc check --property $p --tier quick 2>&1)
  rc=$?
  nviol=$(echo "$out" | grep -c '^VIOLATION')
  echo "$p rc=$rc violations=$nviol :: $(echo "$out" | grep '^VIOLATION' | sed 's/.*replays\/[A-Z0-9]*\///' | sed 's/__.*//' | sort | uniq -c | head -5 | tr '\n' ';')"
  echo "$out" | grep -i 'engine error' | head -3
done
cd /repo && git checkout -- .
rm -rf /verif/evidence && cp -r $keep/evidence /verif/evidence && rm -rf $keep 
