#!/usr/bin/env python3
"""Rewrites the seeded-changes table of DESIGN.md (between the SEEDED-TABLE markers) from selftest/results.json."""
import json, os, re, glob
V = os.path.dirname(os.path.dirname(os.path.abspath(__file__)))
res = json.load(open(V + '/selftest/results.json'))
rows = ['| seeded | what it changes | caught by | violated obligation(s) (first two per check) |', '|---|---|---|---|']
missed = []
for sid in sorted(res):
    r = res[sid]
    meta = json.load(open(V + '/seeded/%s/meta.json' % sid))
    what = meta.get('what_it_breaks_and_needs', '').replace('|', '/')
    caught = r.get('caught_by', [])
    if not caught:
        missed.append(sid)
    det = '; '.join('%s: %s' % (p, ', '.join(o.replace('cors.Middleware.Wrap_1_', 'Wrap$1/').replace('cors.internalConfig.', '') for o in r['detail'][p]['violated_obligations'][:2])) for p in caught)
    rows.append('| %s | %s | %s | %s |' % (sid, what[:110], ','.join(caught) or '**missed**', det[:260]))
txt = '\n'.join(rows) + '\n\n' + ('Missed: ' + ', '.join(missed) if missed else 'No seeded change is missed.') + '\n'
p = V + '/DESIGN.md'
s = open(p).read()
a = s.index('<!-- SEEDED-TABLE-BEGIN -->') + len('<!-- SEEDED-TABLE-BEGIN -->\n')
b = s.index('<!-- SEEDED-TABLE-END -->')
open(p, 'w').write(s[:a] + txt + s[b:])
print(len(res), 'rows,', len(missed), 'missed')
