#!/usr/bin/env python3
"""Must-fail self-test: applies every seeded change under /verif/seeded to /repo (git apply),
runs the quick check of its property (plus the related checks listed below), undoes it
(git checkout), and records which named obligations reported the violation."""
import json, os, subprocess, sys, glob, re
V='/verif'; R='/repo'
ALSO={'C02':['C15','C03'],'C06':['C15','C01'],'C10':['C12','C11'],'C08':['C04'],'C05':['C04'],'C19':['C05','C17'],'C14':['C12'],'C09':['C03'],'C16':['C11'],'C03':['C01'],'C13':['C01','C17'],'C18':[]}
only=sys.argv[1:] 
if subprocess.run('git -C %s status --porcelain'%R,shell=True,capture_output=True,text=True).stdout.strip():
    print('REPO DIRTY'); sys.exit(2)
# the checks rewrite /verif/evidence on every run: keep the unchanged-tree evidence aside and put it back at the end
import shutil, atexit, tempfile
_ev=tempfile.mkdtemp(prefix='evidence-keep-')
shutil.copytree(V+'/evidence',_ev+'/evidence')
def _restore():
    shutil.rmtree(V+'/evidence',ignore_errors=True); shutil.copytree(_ev+'/evidence',V+'/evidence'); shutil.rmtree(_ev,ignore_errors=True)
    shutil.rmtree(V+'/replays',ignore_errors=True)
atexit.register(_restore)
claimed={c['property_id'] for c in json.load(open(V+'/MANIFEST.json'))['checks']}
res={}
for d in sorted(glob.glob(V+'/seeded/*/')):
    sid=os.path.basename(d.rstrip('/'))
    if only and sid not in only and sid.split('-')[0] not in only: continue
    meta=json.load(open(d+'meta.json')); pid=meta['property']
    props=[p for p in [pid]+ALSO.get(pid,[]) if p in claimed]
    if subprocess.run('git -C %s apply %spatch.diff'%(R,d),shell=True).returncode!=0:
        res[sid]={'error':'patch does not apply'}; continue
    det={}
    try:
        for p in props:
            out=subprocess.run('cd %s && timeout 900 ./bin/govc check --property %s --tier quick'%(V,p),shell=True,capture_output=True,text=True)
            names=sorted({re.sub(r'__.*','',l.split('replay=')[1].split()[0].split('/')[-1]).replace('.json','') for l in out.stdout.splitlines() if l.startswith('VIOLATION')})
            det[p]={'exit':out.returncode,'violated_obligations':names}
    finally:
        subprocess.run('git -C %s checkout -q -- .'%R,shell=True)
    caught=[p for p,v in det.items() if v['exit']==1]
    res[sid]={'property':pid,'checks_run':props,'caught_by':caught,'detail':det}
    meta['checks_run']=['./bin/govc check --property %s --tier quick'%p for p in props]
    meta['detected_by']={p:det[p]['violated_obligations'] for p in caught}
    json.dump(meta,open(d+'meta.json','w'),indent=1)
    print(sid, 'CAUGHT by '+','.join(caught) if caught else 'MISSED', {p:det[p]['violated_obligations'][:2] for p in caught})
os.makedirs(V+'/selftest',exist_ok=True)
prev={}
try: prev=json.load(open(V+'/selftest/results.json'))
except Exception: pass
prev.update(res)
json.dump(prev,open(V+'/selftest/results.json','w'),indent=1)
