#!/bin/bash
# runs every claimed quick check on the current /repo tree; prints one line per check
cd /verif
for p in $(python3 -c "import json;print(' '.join(c['property_id'] for c in json.load(open('MANIFEST.json'))['checks']))"); do
  out=$(timeout 1200 ./bin/govc check --property $p --tier ${1:-quick} 2>&1); rc=$?
  echo "rc=$rc $(echo "$out" | tail -1 | cut -c1-140)"
  [ $rc -ne 0 ] && echo "$out" | grep -E 'VIOLATION|engine error' | head -3 | cut -c1-250
done
