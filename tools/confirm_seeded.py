#!/usr/bin/env python3
"""Confirms each staged mutant in a scratch worktree of /repo (suite passes with the change,
demo fails with it, demo passes without it) and files the confirmed ones under /verif/seeded/."""
import json, os, re, shutil, subprocess, sys
STAGE='/tmp/seeded-stage'; OUT='/verif/seeded'; WT='/tmp/wt-confirm'
ENV=dict(os.environ, GOFLAGS='-mod=mod', GOPROXY='off', GOSUMDB='off', GOTOOLCHAIN='local')
notes={}
for ln in open(os.path.join(STAGE,'NOTES.md')):
    m=re.match(r'(C\d\d) m(\d) \(([^)]*)\) (\S+): (.*)', ln)
    if m: notes[(m.group(1),m.group(2))]=(m.group(3),m.group(4),m.group(5))
def run(cmd, cwd=WT):
    p=subprocess.run(cmd, cwd=cwd, env=ENV, shell=True, capture_output=True, text=True)
    return p.returncode, (p.stdout+p.stderr)
subprocess.run('git -C /repo worktree remove --force %s 2>/dev/null; git -C /repo worktree prune; git -C /repo worktree add -q --detach %s HEAD'%(WT,WT), shell=True)
results=[]
for (pid,n),(pkgdir,tests,desc) in sorted(notes.items()):
    d=os.path.join(STAGE,pid)
    patch=os.path.join(d,'mut%s_rebased.diff'%n)
    if not os.path.exists(patch): patch=os.path.join(d,'mut%s.diff'%n)
    demo=os.path.join(d,'mut%s_demo_test.go'%n)
    run('git checkout -q -- . && git clean -fdq')
    rc,out=run('git apply %s'%patch)
    if rc!=0:
        results.append((pid,n,'patch does not apply to HEAD')); continue
    rc,out=run('go build ./... && go test -vet=off -count=1 ./...')
    if rc!=0:
        results.append((pid,n,'existing suite fails with the change')); continue
    target=os.path.join(WT,pkgdir,'zz_seeded_demo_test.go')
    shutil.copy(demo,target)
    runre='|'.join(tests.split('|'))
    rc_with,out_with=run("go test -vet=off -count=1 -run '%s' ./%s"%(runre,pkgdir))
    run('git checkout -q -- .')
    rc_without,out_without=run("go test -vet=off -count=1 -run '%s' ./%s"%(runre,pkgdir))
    os.remove(target)
    if rc_with==0 or rc_without!=0:
        results.append((pid,n,'demo: with change rc=%d, without rc=%d'%(rc_with,rc_without))); continue
    dest=os.path.join(OUT,'%s-%s'%(pid,n)); os.makedirs(dest,exist_ok=True)
    shutil.copy(patch,os.path.join(dest,'patch.diff')); shutil.copy(demo,os.path.join(dest,'demo_test.go'))
    meta={'property':pid,'what_it_breaks_and_needs':desc,'demo_package_dir':pkgdir,'demo_tests':tests,
          'base_commit':subprocess.run('git -C /repo rev-parse --short HEAD',shell=True,capture_output=True,text=True).stdout.strip(),
          'confirmed':{'suite_with_change':'go build ./... && go test -vet=off -count=1 ./...  -> pass',
                       'demo_with_change':'FAIL (as intended)','demo_without_change':'pass'},
          'origin':'written by an independent sub-agent given only the property text and a scratch worktree'}
    json.dump(meta,open(os.path.join(dest,'meta.json'),'w'),indent=1)
    results.append((pid,n,'confirmed'))
subprocess.run('git -C /repo worktree remove --force %s; git -C /repo worktree prune'%WT, shell=True)
for r in results: print(*r)
