package cors

// Concrete search for C02 on the REAL middleware (never counted as a proof).
//   - when an obligation of C02 fails, govc runs it to look for a failing
//     (configuration, browser intent) on the real code: the replay;
//   - in the thorough tier it runs as an independent bounded cross-check.
//
// Browser side: a transcription of Fetch's "CORS-preflight fetch" (step 7),
// "CORS check", header-list value extraction and of the Private Network Access
// draft's check. Meaning side: the statement of C02, evaluated on the Config
// the user wrote (not on anything the library computed).

import (
	"fmt"
	"net/http"
	"net/http/httptest"
	"sort"
	"strings"
	"testing"
)

type c02intent struct {
	origin  string
	method  string // as written by the page's script
	headers []string
	include bool
	pna     bool
}

func c02normalize(m string) string {
	switch u := strings.ToUpper(m); u {
	case "DELETE", "GET", "HEAD", "OPTIONS", "POST", "PUT":
		return u
	}
	return m
}

func c02safelisted(m string) bool { return m == "GET" || m == "HEAD" || m == "POST" }

func c02list(h http.Header, key string, lower bool) []string {
	var out []string
	for _, v := range h[key] {
		for _, e := range strings.Split(v, ",") {
			e = strings.Trim(e, " \t\r\n")
			if lower {
				e = strings.ToLower(e)
			}
			out = append(out, e)
		}
	}
	return out
}

func c02has(l []string, s string) bool {
	for _, e := range l {
		if e == s {
			return true
		}
	}
	return false
}

func c02corsCheck(h http.Header, origin string, include bool) bool {
	acao := strings.Join(h["Access-Control-Allow-Origin"], ", ")
	if len(h["Access-Control-Allow-Origin"]) == 0 {
		return false
	}
	if !include && acao == "*" {
		return true
	}
	if acao != origin {
		return false
	}
	if !include {
		return true
	}
	return strings.Join(h["Access-Control-Allow-Credentials"], ", ") == "true"
}

// perturb: intermediary alterations of the ACRH value that the documentation tolerates
func c02acrh(names []string, perturb int) []string {
	if len(names) == 0 {
		return nil
	}
	switch perturb {
	case 1:
		return []string{strings.Join(names, ", ")}
	case 2:
		return []string{strings.Join(names, " ,")}
	case 3:
		return append([]string(nil), names...) // one field line per name
	case 4:
		return []string{"," + strings.Join(names, ",,") + ","}
	}
	return []string{strings.Join(names, ",")}
}

func c02browser(h http.Handler, in c02intent, perturb int) bool {
	m := c02normalize(in.method)
	names := append([]string(nil), in.headers...)
	sort.Strings(names)
	if !c02safelisted(m) || len(names) > 0 || in.pna {
		req := httptest.NewRequest("OPTIONS", "https://server.example/", nil)
		req.Header = http.Header{"Origin": {in.origin}, "Access-Control-Request-Method": {m}}
		if v := c02acrh(names, perturb); v != nil {
			req.Header["Access-Control-Request-Headers"] = v
		}
		if in.pna {
			req.Header["Access-Control-Request-Private-Network"] = []string{"true"}
		}
		rec := httptest.NewRecorder()
		h.ServeHTTP(rec, req)
		rh := rec.Header()
		if !c02corsCheck(rh, in.origin, in.include) || rec.Code < 200 || rec.Code > 299 {
			return false
		}
		methods := c02list(rh, "Access-Control-Allow-Methods", false)
		hdrs := c02list(rh, "Access-Control-Allow-Headers", true)
		if !c02has(methods, m) && !c02safelisted(m) && (in.include || !c02has(methods, "*")) {
			return false
		}
		for _, n := range names {
			if n == "authorization" && !c02has(hdrs, n) {
				return false
			}
			if !c02has(hdrs, n) && (in.include || !c02has(hdrs, "*")) {
				return false
			}
		}
		if in.pna && strings.Join(rh["Access-Control-Allow-Private-Network"], ", ") != "true" {
			return false
		}
	}
	req := httptest.NewRequest(m, "https://server.example/", nil)
	req.Header = http.Header{"Origin": {in.origin}}
	for _, n := range names {
		req.Header[http.CanonicalHeaderKey(n)] = []string{"v"}
	}
	rec := httptest.NewRecorder()
	h.ServeHTTP(rec, req)
	return c02corsCheck(rec.Header(), in.origin, in.include)
}

func c02originAllowed(patterns []string, origin string) bool {
	for _, p := range patterns {
		if p == "*" || p == origin {
			return true
		}
		if i := strings.Index(p, "://*."); i >= 0 {
			scheme, base := p[:i+3], p[i+4:] // base begins with "."
			if strings.HasPrefix(origin, scheme) {
				host := origin[len(scheme):]
				if len(host) > len(base) && strings.HasSuffix(host, base) {
					return true
				}
			}
		}
	}
	return false
}

func c02means(cfg Config, in c02intent) bool {
	if !c02originAllowed(cfg.Origins, in.origin) {
		return false
	}
	if in.include && !cfg.Credentialed {
		return false
	}
	if cfg.ExtraConfig.PrivateNetworkAccessInNoCORSModeOnly {
		return false
	}
	if in.pna && !cfg.ExtraConfig.PrivateNetworkAccess {
		return false
	}
	m := c02normalize(in.method)
	if !c02safelisted(m) {
		ok := false
		for _, cm := range cfg.Methods {
			if cm == "*" || c02normalize(cm) == m {
				ok = true
			}
		}
		if !ok {
			return false
		}
	}
	star, auth := false, false
	listed := map[string]bool{}
	for _, n := range cfg.RequestHeaders {
		if n == "*" {
			star = true
			continue
		}
		listed[strings.ToLower(n)] = true
		if strings.ToLower(n) == "authorization" {
			auth = true
		}
	}
	for _, n := range in.headers {
		if listed[n] {
			continue
		}
		if star && (n != "authorization" || cfg.Credentialed || auth) {
			continue
		}
		return false
	}
	return true
}

func TestGovcC02(t *testing.T) {
	var intents []c02intent
	hdrUniverse := []string{"x-foo", "x-bar", "authorization"}
	for _, o := range []string{"https://a.com", "https://x.b.com", "https://b.com", "https://evil.com", "http://a.com"} {
		for _, m := range []string{"GET", "POST", "PUT", "put", "Delete", "PATCH", "patch", "QUERY"} {
			for mask := 0; mask < 1<<len(hdrUniverse); mask++ {
				var hs []string
				for i, n := range hdrUniverse {
					if mask&(1<<i) != 0 {
						hs = append(hs, n)
					}
				}
				for _, inc := range []bool{false, true} {
					for _, pna := range []bool{false, true} {
						intents = append(intents, c02intent{o, m, hs, inc, pna})
					}
				}
			}
		}
	}
	inner := http.HandlerFunc(func(w http.ResponseWriter, r *http.Request) {})
	configs, cases, permitted, fails := 0, 0, 0, 0
	for _, origins := range [][]string{{"*"}, {"https://a.com"}, {"https://a.com", "https://*.b.com"}} {
		for _, cred := range []bool{false, true} {
			for _, methods := range [][]string{nil, {"PUT"}, {"put"}, {"PATCH", "delete"}, {"patch"}, {"*"}} {
				for _, reqh := range [][]string{nil, {"X-Foo"}, {"x-bar", "Authorization"}, {"*"}, {"*", "Authorization"}, {"AUTHORIZATION", "*"}, {"X-Foo", "*"}} {
					for pna := 0; pna < 3; pna++ {
						cfg := Config{Origins: origins, Credentialed: cred, Methods: methods, RequestHeaders: reqh}
						cfg.ExtraConfig.PrivateNetworkAccess = pna == 1
						cfg.ExtraConfig.PrivateNetworkAccessInNoCORSModeOnly = pna == 2
						mw, err := NewMiddleware(cfg)
						if err != nil {
							continue
						}
						configs++
						for _, debug := range []bool{false, true} {
							mw.SetDebug(debug)
							h := mw.Wrap(inner)
							for _, in := range intents {
								want := c02means(cfg, in)
								if want {
									permitted++
								}
								for perturb := 0; perturb < 5; perturb++ {
									if perturb > 0 && len(in.headers) == 0 {
										continue
									}
									cases++
									if got := c02browser(h, in, perturb); got != want {
										fails++
										if fails <= 10 {
											fmt.Printf("GOVC-C02-FAIL config={Origins:%q Credentialed:%t Methods:%q RequestHeaders:%q PNA:%d} debug=%t intent=%+v acrh-perturbation=%d browser-verdict=%t configuration-means=%t\n",
												cfg.Origins, cfg.Credentialed, cfg.Methods, cfg.RequestHeaders, pna, debug, in, perturb, got, want)
										}
									}
								}
							}
						}
					}
				}
			}
		}
	}
	fmt.Printf("GOVC-C02 configs=%d intents=%d cases=%d permitted=%d fails=%d\n", configs, len(intents), cases, permitted, fails)
}
