package cfgerrors

// Bounded stand-in for C19 (DESIGN §5 C19): cfgerrors.All is a recursive push
// iterator (closures, range-over-func, type switch on an open interface) and
// is outside the subset govc can translate. This test enumerates EVERY join
// tree with at most maxNodes nodes (leaves of each exported error type and a
// foreign error, joins of one, nested joins) and EVERY break position, and
// compares All with an independent recursive flattening.

import (
	"errors"
	"fmt"
	"os"
	"strconv"
	"testing"
)

type c19tree struct {
	leaf error
	kids []*c19tree
}

func (t *c19tree) build() error {
	if t.kids == nil {
		return t.leaf
	}
	es := make([]error, len(t.kids))
	for i, k := range t.kids {
		es[i] = k.build()
	}
	return errors.Join(es...)
}

func (t *c19tree) leaves(out *[]error) {
	if t.kids == nil {
		*out = append(*out, t.leaf)
		return
	}
	for _, k := range t.kids {
		k.leaves(out)
	}
}

func (t *c19tree) String() string {
	if t.kids == nil {
		return "L"
	}
	s := "J("
	for _, k := range t.kids {
		s += k.String()
	}
	return s + ")"
}

var c19leafCtr int

func c19leaf() error {
	c19leafCtr++
	switch c19leafCtr % 8 {
	case 0:
		return &UnacceptableOriginPatternError{Value: strconv.Itoa(c19leafCtr), Reason: "invalid"}
	case 1:
		return &UnacceptableMethodError{Value: strconv.Itoa(c19leafCtr), Reason: "invalid"}
	case 2:
		return &UnacceptableHeaderNameError{Value: strconv.Itoa(c19leafCtr), Type: "request", Reason: "invalid"}
	case 3:
		return &MaxAgeOutOfBoundsError{Value: c19leafCtr}
	case 4:
		return &PreflightSuccessStatusOutOfBoundsError{Value: c19leafCtr}
	case 5:
		return &IncompatibleOriginPatternError{Value: strconv.Itoa(c19leafCtr), Reason: "psl"}
	case 6:
		return new(IncompatiblePrivateNetworkAccessModesError)
	default:
		return fmt.Errorf("foreign %d", c19leafCtr)
	}
}

// c19trees returns all trees with exactly n nodes.
func c19trees(n int) []*c19tree {
	if n == 1 {
		return []*c19tree{{}}
	}
	var out []*c19tree
	// a join node with children forests of total size n-1
	for _, f := range c19forests(n - 1) {
		out = append(out, &c19tree{kids: f})
	}
	return out
}

// c19forests returns all non-empty ordered forests with n nodes in total.
func c19forests(n int) [][]*c19tree {
	if n == 0 {
		return nil
	}
	var out [][]*c19tree
	for first := 1; first <= n; first++ {
		for _, t := range c19trees(first) {
			if first == n {
				out = append(out, []*c19tree{t})
				continue
			}
			for _, rest := range c19forests(n - first) {
				out = append(out, append([]*c19tree{t}, rest...))
			}
		}
	}
	return out
}

func c19fill(t *c19tree) *c19tree {
	if t.kids == nil {
		return &c19tree{leaf: c19leaf()}
	}
	n := &c19tree{kids: make([]*c19tree, len(t.kids))}
	for i, k := range t.kids {
		n.kids[i] = c19fill(k)
	}
	return n
}

func TestGovcC19(t *testing.T) {
	maxNodes := 7
	if s := os.Getenv("GOVC_C19_NODES"); s != "" {
		maxNodes, _ = strconv.Atoi(s)
	}
	trees, cases, nontrivial, fails := 0, 0, 0, 0
	var sample string
	for n := 1; n <= maxNodes; n++ {
		for _, shape := range c19trees(n) {
			trees++
			tr := c19fill(shape)
			err := tr.build()
			var want []error
			tr.leaves(&want)
			if len(want) > 1 {
				nontrivial++
			}
			if sample == "" && n == maxNodes {
				sample = tr.String()
			}
			for brk := 0; brk <= len(want); brk++ { // brk == len(want): no break
				cases++
				var got []error
				ok := true
				func() {
					defer func() {
						if r := recover(); r != nil {
							ok = false
							fmt.Printf("GOVC-C19-FAIL tree=%s break=%d panic=%v\n", tr, brk, r)
						}
					}()
					for e := range All(err) {
						got = append(got, e)
						if len(got) == brk+1 && brk < len(want) {
							break
						}
					}
				}()
				nexp := len(want)
				if brk < len(want) {
					nexp = brk + 1
				}
				if ok && len(got) != nexp {
					ok = false
					fmt.Printf("GOVC-C19-FAIL tree=%s break=%d yielded=%d want=%d\n", tr, brk, len(got), nexp)
				}
				if ok {
					// the yield order is unspecified: compare as multisets; on early
					// exit the yielded errors must be distinct leaves of the tree
					remaining := append([]error(nil), want...)
					for _, g := range got {
						found := false
						for i, w := range remaining {
							if w == g {
								remaining = append(remaining[:i], remaining[i+1:]...)
								found = true
								break
							}
						}
						if !found {
							ok = false
							fmt.Printf("GOVC-C19-FAIL tree=%s break=%d yielded an error that is not a (remaining) leaf\n", tr, brk)
							break
						}
					}
				}
				if !ok {
					fails++
				}
			}
		}
	}
	fmt.Printf("GOVC-C19 maxnodes=%d trees=%d cases=%d nontrivial=%d fails=%d sample=%s\n", maxNodes, trees, cases, nontrivial, fails, sample)
}
