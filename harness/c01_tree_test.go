package origins

// Bounded stand-in for the one obligation of C01 that is not discharged
// deductively (DESIGN §5 C01 item 4): Tree.Insert is an in-place update of a
// radix tree whose functional postcondition ("the tree afterwards denotes the
// old denotation plus the inserted pattern") needs induction over a recursive
// heap predicate. On the REAL Insert / Contains / Elems this test enumerates
// EVERY ordered list (so every insertion order, including duplicates) of at
// most maxList patterns over a small universe that contains hosts sharing
// byte suffixes that are not label boundaries, several schemes and ports per
// host, exact and wildcard hosts and ports, and compares Contains with the
// denotation taken from the property statement for EVERY probe origin. It also
// checks the node invariant NodeOK on every reachable node and that
// re-inserting Elems() yields a tree with the same verdicts (C06, origins part).

import (
	"fmt"
	"os"
	"sort"
	"strconv"
	"strings"
	"testing"
)

type c01pat struct {
	scheme string
	host   string // without "*."
	wild   bool
	port   int // 0 absent, 65536 any
}

func (p c01pat) pattern() Pattern {
	hp := HostPattern{Value: p.host, Kind: PatternKindDomain}
	if p.wild {
		hp = HostPattern{Value: "*." + p.host, Kind: PatternKindSubdomains}
	}
	return Pattern{Scheme: p.scheme, HostPattern: hp, Port: p.port}
}

func (p c01pat) String() string {
	s := p.scheme + "://"
	if p.wild {
		s += "*."
	}
	s += p.host
	switch p.port {
	case 0:
	case wildcardPort:
		s += ":*"
	default:
		s += ":" + strconv.Itoa(p.port)
	}
	return s
}

// denotes is the statement of C01: same scheme; host byte-equal, or for a "*."
// pattern ending in "."+base with at least one more byte in front; port equal
// (absent matches only absent) or arbitrary for a ":*" pattern.
func (p c01pat) denotes(scheme, host string, port int) bool {
	if p.scheme != scheme {
		return false
	}
	if p.port != wildcardPort && p.port != port {
		return false
	}
	if !p.wild {
		return host == p.host
	}
	suffix := "." + p.host
	return len(host) > len(suffix) && strings.HasSuffix(host, suffix)
}

func c01hosts(alphabet string, maxLen int) []string {
	var out []string
	var rec func(cur string)
	rec = func(cur string) {
		if len(cur) > 0 {
			out = append(out, cur)
		}
		if len(cur) == maxLen {
			return
		}
		for i := 0; i < len(alphabet); i++ {
			c := alphabet[i]
			if c == '.' && (len(cur) == 0 || cur[len(cur)-1] == '.') {
				continue
			}
			rec(cur + string(c))
		}
	}
	rec("")
	return out
}

func c01nodeOK(n *node, depth int) error {
	if len(n.edges) != len(n.children) || len(n.schemes) != len(n.ports) {
		return fmt.Errorf("parallel slices differ in length")
	}
	if !sort.SliceIsSorted(n.edges, func(i, j int) bool { return n.edges[i] < n.edges[j] }) {
		return fmt.Errorf("edges not sorted")
	}
	for i := 1; i < len(n.edges); i++ {
		if n.edges[i] == n.edges[i-1] {
			return fmt.Errorf("duplicate edge")
		}
	}
	for i := 1; i < len(n.schemes); i++ {
		if n.schemes[i-1] >= n.schemes[i] {
			return fmt.Errorf("schemes not strictly sorted")
		}
	}
	for _, ps := range n.ports {
		for i := 1; i < len(ps); i++ {
			if ps[i-1] > ps[i] {
				return fmt.Errorf("ports not sorted")
			}
		}
	}
	for i := range n.children {
		c := &n.children[i]
		if len(c.suf) == 0 || c.suf[len(c.suf)-1] != n.edges[i] {
			return fmt.Errorf("edge label is not the last byte of the child's suffix")
		}
		if err := c01nodeOK(c, depth+1); err != nil {
			return err
		}
	}
	return nil
}

func TestGovcC01(t *testing.T) {
	maxList, hostLen, probeLen := 2, 3, 4
	if os.Getenv("GOVC_TIER") == "thorough" {
		maxList, hostLen, probeLen = 3, 3, 5
	}
	schemes := []string{"a", "ab"}
	ports := []int{0, 1, wildcardPort}
	var universe []c01pat
	for _, h := range c01hosts("ab.", hostLen) {
		for _, w := range []bool{false, true} {
			if w && strings.HasSuffix(h, ".") && len(h) == 1 {
				continue
			}
			for _, sc := range schemes {
				for _, p := range ports {
					universe = append(universe, c01pat{sc, h, w, p})
				}
			}
		}
	}
	if maxList >= 3 {
		// thinner universe for triples
		var u2 []c01pat
		for i, p := range universe {
			if i%5 == 0 {
				u2 = append(u2, p)
			}
		}
		universe = u2
	}
	type probe struct {
		scheme, host string
		port         int
	}
	var probes []probe
	for _, h := range c01hosts("ab.", probeLen) {
		for _, sc := range []string{"a", "ab", "b"} {
			for _, p := range []int{0, 1, 2} {
				probes = append(probes, probe{sc, h, p})
			}
		}
	}
	lists, evals, nontrivial, fails := 0, 0, 0, 0
	sample := ""
	check := func(list []c01pat) {
		lists++
		var tree Tree
		for _, p := range list {
			pat := p.pattern()
			tree.Insert(&pat)
		}
		if tree.IsEmpty() {
			fails++
			fmt.Printf("GOVC-C01-FAIL list=%v tree empty after insert\n", list)
			return
		}
		if err := c01nodeOK(&tree.root, 0); err != nil {
			fails++
			fmt.Printf("GOVC-C01-FAIL list=%v invariant: %v\n", list, err)
			return
		}
		// Elems round trip through the real pattern parser
		var tree2 Tree
		elemsOK := true
		for _, s := range tree.Elems() {
			p2, err := ParsePattern(s)
			if err != nil {
				elemsOK = false // hosts of this artificial universe that the real grammar rejects are skipped
				break
			}
			tree2.Insert(&p2)
		}
		any := false
		for _, pr := range probes {
			evals++
			want := false
			for _, p := range list {
				if p.denotes(pr.scheme, pr.host, pr.port) {
					want = true
					break
				}
			}
			if want {
				any = true
			}
			o := Origin{Scheme: pr.scheme, Host: Host{Value: pr.host}, Port: pr.port}
			if got := tree.Contains(&o); got != want {
				fails++
				if fails <= 20 {
					fmt.Printf("GOVC-C01-FAIL list=%v origin=%s://%s port=%d Contains=%t denoted=%t\n", list, pr.scheme, pr.host, pr.port, got, want)
				}
			}
			if elemsOK {
				if got2 := tree2.Contains(&o); got2 != want {
					fails++
					if fails <= 20 {
						fmt.Printf("GOVC-C01-FAIL list=%v origin=%s://%s port=%d after Elems round trip Contains=%t denoted=%t\n", list, pr.scheme, pr.host, pr.port, got2, want)
					}
				}
			}
		}
		if any && len(list) > 1 {
			nontrivial++
		}
		if sample == "" && len(list) == maxList {
			sample = fmt.Sprint(list)
		}
	}
	var rec func(list []c01pat)
	rec = func(list []c01pat) {
		if len(list) > 0 {
			check(list)
		}
		if len(list) == maxList {
			return
		}
		for _, p := range universe {
			rec(append(append([]c01pat(nil), list...), p))
		}
	}
	rec(nil)
	// Part 2 (C06, origins): Elems() round trip over patterns of the REAL grammar
	// (IPv6/IPv4 literals and domains with shared byte suffixes). Every input is
	// accepted by ParsePattern, so every rendered element must be accepted too,
	// rendering must be a fixed point, and every wildcard-free input must still
	// be contained as an origin. A parse failure here is a failure, never skipped.
	var real []Pattern
	var realStr []string
	for _, s := range []string{
		"http://[2001:db8::1]", "http://[2002:db8::1]:8443", "http://[2001:db8::2]:*", "https://[::1]", "http://[::1]:9090",
		"http://[1::1]", "http://[2::1]:81", "http://127.0.0.1", "http://127.0.0.1:8080", "http://127.0.1.1:*",
		"https://example.com", "https://*.example.com", "https://xample.com:8080", "https://*.ample.com:*", "https://a.example.com.",
		"http://localhost:*", "http://localhost", "https://example.com:8443", "http://example.com", "https://*.a.example.com:8443",
	} {
		pt, err := ParsePattern(s)
		if err != nil {
			continue
		}
		real = append(real, pt)
		realStr = append(realStr, s)
	}
	if len(real) < 16 {
		fails++
		fmt.Printf("GOVC-C01-FAIL list=[] only %d of the real-grammar patterns are accepted by ParsePattern\n", len(real))
	}
	checkReal := func(idx []int) {
		lists++
		var tree Tree
		var names []string
		for _, i := range idx {
			pt := real[i]
			tree.Insert(&pt)
			names = append(names, realStr[i])
		}
		elems := tree.Elems()
		var tree2 Tree
		for _, s := range elems {
			p2, err := ParsePattern(s)
			if err != nil {
				fails++
				if fails <= 20 {
					fmt.Printf("GOVC-C01-FAIL list=%v Elems() renders %q, which ParsePattern rejects\n", strings.Join(names, ","), s)
				}
				return
			}
			tree2.Insert(&p2)
		}
		if e2 := tree2.Elems(); strings.Join(e2, " ") != strings.Join(elems, " ") {
			fails++
			if fails <= 20 {
				fmt.Printf("GOVC-C01-FAIL list=%v Elems() is not a fixed point: %q then %q\n", strings.Join(names, ","), elems, e2)
			}
		}
		for _, i := range idx {
			if strings.Contains(realStr[i], "*") {
				continue
			}
			o, ok := Parse(realStr[i])
			evals++
			if !ok || !tree.Contains(&o) || !tree2.Contains(&o) {
				fails++
				if fails <= 20 {
					fmt.Printf("GOVC-C01-FAIL list=%v origin=%s not contained before/after the Elems round trip (parsed=%t)\n", strings.Join(names, ","), realStr[i], ok)
				}
			}
		}
	}
	var recReal func(idx []int)
	recReal = func(idx []int) {
		if len(idx) > 0 {
			checkReal(idx)
		}
		if len(idx) == maxList {
			return
		}
		for i := range real {
			recReal(append(append([]int(nil), idx...), i))
		}
	}
	recReal(nil)
	fmt.Printf("GOVC-C01 maxlist=%d universe=%d probes=%d lists=%d evals=%d nontrivial=%d fails=%d sample=%s\n",
		maxList, len(universe), len(probes), lists, evals, nontrivial, fails, strings.ReplaceAll(sample, " ", ","))
}
