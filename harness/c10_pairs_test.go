package cors

// Concrete pair search for C10 on the REAL middleware (never counted as a
// proof). It has two uses:
//   - when a self-composition obligation of C10 fails, govc runs it to look
//     for a failing pair of requests on the real code (the replay of the
//     violation); the solver's model ranges over an internal configuration and
//     two symbolic header maps and is not itself turned into Go values;
//   - in the thorough tier it runs as an independent bounded cross-check.
//
// Oracle = the statement of C10: for a configuration, a debug mode and
// pre-set Vary value, two requests with the same method that carry the same
// value lists for every request-header name listed in the Vary field of the
// FIRST response get the same status and the same response headers; and any
// Vary values set earlier in the chain are still there, in front.

import (
	"fmt"
	"net/http"
	"net/http/httptest"
	"reflect"
	"strings"
	"testing"
)

type c10req struct {
	method string
	hdr    http.Header
}

func (r c10req) String() string { return fmt.Sprintf("%s %v", r.method, r.hdr) }

func c10requests() []c10req {
	var out []c10req
	opt := func(vals ...string) [][]string {
		o := [][]string{nil}
		for _, v := range vals {
			o = append(o, []string{v})
		}
		return o
	}
	for _, m := range []string{"GET", "OPTIONS", "PUT"} {
		for _, o := range opt("https://a.com", "https://x.b.com", "https://evil.com") {
			for _, acrm := range opt("GET", "PUT") {
				for _, acrh := range opt("x-foo", "authorization") {
					for _, acrpn := range opt("true") {
						for _, other := range opt("1") {
							h := http.Header{}
							if o != nil {
								h["Origin"] = o
							}
							if acrm != nil {
								h["Access-Control-Request-Method"] = acrm
							}
							if acrh != nil {
								h["Access-Control-Request-Headers"] = acrh
							}
							if acrpn != nil {
								h["Access-Control-Request-Private-Network"] = acrpn
							}
							if other != nil {
								h["X-Unrelated"] = other
							}
							out = append(out, c10req{m, h})
						}
					}
				}
			}
		}
	}
	return out
}

func c10configs() []Config {
	var out []Config
	for _, origins := range [][]string{{"*"}, {"https://a.com"}, {"https://a.com", "https://*.b.com"}} {
		for _, cred := range []bool{false, true} {
			for _, methods := range [][]string{nil, {"PUT"}, {"*"}} {
				for _, reqh := range [][]string{nil, {"X-Foo"}, {"*"}, {"*", "Authorization"}} {
					for _, exp := range [][]string{nil, {"X-Bar"}} {
						for pna := 0; pna < 3; pna++ {
							cfg := Config{Origins: origins, Credentialed: cred, Methods: methods, RequestHeaders: reqh, ResponseHeaders: exp, MaxAgeInSeconds: 30}
							cfg.ExtraConfig.PrivateNetworkAccess = pna == 1
							cfg.ExtraConfig.PrivateNetworkAccessInNoCORSModeOnly = pna == 2
							out = append(out, cfg)
						}
					}
				}
			}
		}
	}
	return out
}

func c10serve(h http.Handler, r c10req, preVary []string) (int, http.Header) {
	req := httptest.NewRequest(r.method, "https://example.org/", nil)
	req.Header = r.hdr.Clone()
	rec := httptest.NewRecorder()
	if preVary != nil {
		rec.Header()["Vary"] = append([]string(nil), preVary...)
	}
	h.ServeHTTP(rec, req)
	return rec.Code, rec.Header()
}

func c10varyNames(h http.Header) []string {
	var names []string
	for _, v := range h["Vary"] {
		for _, n := range strings.Split(v, ",") {
			n = strings.TrimSpace(n)
			if n != "" {
				names = append(names, http.CanonicalHeaderKey(n))
			}
		}
	}
	return names
}

func TestGovcC10(t *testing.T) {
	reqs := c10requests()
	inner := http.HandlerFunc(func(w http.ResponseWriter, r *http.Request) {})
	configs, pairs, constrained, fails := 0, 0, 0, 0
	for _, cfg := range c10configs() {
		m, err := NewMiddleware(cfg)
		if err != nil {
			continue
		}
		configs++
		for _, debug := range []bool{false, true} {
			m.SetDebug(debug)
			h := m.Wrap(inner)
			for _, pre := range [][]string{nil, {"Accept-Encoding"}} {
				type resp struct {
					code int
					hdr  http.Header
					vary []string
				}
				rs := make([]resp, len(reqs))
				for i, r := range reqs {
					c, hd := c10serve(h, r, pre)
					rs[i] = resp{c, hd, c10varyNames(hd)}
					got := hd["Vary"]
					if len(pre) > 0 && (len(got) < len(pre) || !reflect.DeepEqual(got[:len(pre)], pre)) {
						fails++
						if fails <= 10 {
							fmt.Printf("GOVC-C10-FAIL config=%+v debug=%t pre-set Vary %v not preserved: %v (request %v)\n", cfg, debug, pre, got, r)
						}
					}
				}
				for i, r1 := range reqs {
					for j, r2 := range reqs {
						if r1.method != r2.method {
							continue
						}
						agree := true
						for _, n := range rs[i].vary {
							if !reflect.DeepEqual(r1.hdr[n], r2.hdr[n]) {
								agree = false
								break
							}
						}
						if !agree {
							continue
						}
						pairs++
						if i != j {
							constrained++
						}
						if rs[i].code != rs[j].code || !reflect.DeepEqual(rs[i].hdr, rs[j].hdr) {
							fails++
							if fails <= 10 {
								fmt.Printf("GOVC-C10-FAIL config=%+v debug=%t preVary=%v\n  request1=%v -> %d %v\n  request2=%v -> %d %v\n", cfg, debug, pre, r1, rs[i].code, rs[i].hdr, r2, rs[j].code, rs[j].hdr)
							}
						}
					}
				}
			}
		}
	}
	fmt.Printf("GOVC-C10 configs=%d requests=%d pairs=%d distinct_pairs=%d fails=%d\n", configs, len(reqs), pairs, constrained, fails)
}
